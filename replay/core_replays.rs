// Replay tests: each recorded finding of /verif/known_findings.json (and each fixed one) is reproduced
// here against the REAL code of d-engine-core. Compiled inside the crate's own test build through the
// add-only hook `#[cfg(all(test, d_engine_verif))] #[path = "/verif/replay/core_replays.rs"] mod
// verif_replays;` so private items and the crate's mocks are reachable.
//
// Convention: a test named `replay_<finding>` ASSERTS THE PROPERTY. It therefore FAILS while the defect
// is present (that failure, with its message, is the replayed counterexample) and passes once repaired.
#![allow(unused_imports, dead_code)]

use std::collections::HashMap;
use std::collections::HashSet;
use std::sync::Arc;

use d_engine_proto::common::Entry;
use d_engine_proto::common::LogId;
use d_engine_proto::server::cluster::NodeMeta;
use d_engine_proto::server::election::VoteResponse;
use d_engine_proto::server::replication::AppendEntriesRequest;

use crate::test_utils::*;
use crate::*;
use crate::raft_role::leader_state::LeaderState;

fn node(id: u32) -> NodeMeta {
    NodeMeta {
        id,
        address: format!("127.0.0.1:{}", 9000 + id),
        role: d_engine_proto::common::NodeRole::Follower as i32,
        status: d_engine_proto::common::NodeStatus::Active as i32,
    }
}

// ---------------------------------------------------------------------------------------------
// F-C26a  calculate_safe_batch_size(1, 2) == 2 : {A} and {B,C} are disjoint majorities
// ---------------------------------------------------------------------------------------------
#[test]
fn replay_f_c26a_batch_promotion_keeps_quorums_intersecting() {
    let (current, available) = (1usize, 2usize);
    let r = crate::raft_role::leader_state::calculate_safe_batch_size(current, available);
    let (old, new) = (current, current + r);
    let maj = |n: usize| n / 2 + 1;
    assert!(
        maj(old) + maj(new) > new,
        "calculate_safe_batch_size({current},{available}) = {r}: a majority of the old {old} voter(s) ({}) and a majority of the new {new} voters ({}) can be disjoint",
        maj(old),
        maj(new)
    );
}

// F-C03a: see server_replays.rs (the repaired code is RaftMembership::is_single_node_cluster, in d-engine-server)

// ---------------------------------------------------------------------------------------------
// F-C08a  capped legacy entries + new entries = gapped AppendEntries payload
// ---------------------------------------------------------------------------------------------
#[tokio::test]
async fn replay_f_c08a_entries_for_a_lagging_peer_are_contiguous() {
    let mut context = setup_mock_replication_test_context(1);
    let old_entries = mock_insert_log_entries(vec![1, 2, 3], 1, 1);
    mock_log_entries_exist(Arc::get_mut(&mut context.raft_log).unwrap(), old_entries);
    let new_entries = mock_insert_log_entries(vec![100], 1, 4);
    let peer_next_indices = HashMap::from([(3u32, 1u64)]);
    let handler = ReplicationHandler::<MockTypeConfig>::new(1);
    let result = handler.retrieve_to_be_synced_logs_for_peers(&new_entries, 3, 2, &peer_next_indices, &context.raft_log);
    let idx: Vec<u64> = result.get(&3).map(|v| v.iter().map(|e| e.index).collect()).unwrap_or_default();
    let contiguous = idx.iter().enumerate().all(|(i, x)| *x == 1 + i as u64);
    assert!(contiguous, "entries for peer 3 (next_index=1, cap=2) have indexes {idx:?}: not consecutive from 1");
}

// ---------------------------------------------------------------------------------------------
// F-C07a  follower commit index bounded by its whole log, not by what the request verified
// ---------------------------------------------------------------------------------------------
#[tokio::test]
async fn replay_f_c07a_follower_commit_stays_within_verified_prefix() {
    // follower log: 1@1 2@1 | 3@1 4@1 left over from a deposed leader
    let mut raft_log = MockRaftLog::new();
    raft_log.expect_last_log_id().returning(|| Some(LogId { index: 4, term: 1 }));
    raft_log.expect_last_entry_id().returning(|| 4);
    raft_log.expect_entry_term().returning(|i| if (1..=4).contains(&i) { Some(1) } else { None });
    let raft_log = Arc::new(raft_log);
    let handler = ReplicationHandler::<MockTypeConfig>::new(2);
    // the request proves agreement up to index 2 only (prev=(2,1), no entries), leader_commit=4
    let req = AppendEntriesRequest {
        term: 2,
        leader_id: 1,
        prev_log_index: 2,
        prev_log_term: 1,
        entries: vec![],
        leader_commit_index: 4,
    };
    let snapshot = StateSnapshot { role: 0, current_term: 2, voted_for: None, commit_index: 0 };
    let out = handler.handle_append_entries(req, &snapshot, &raft_log).await.expect("handled");
    let verified_upto = 2u64;
    assert!(
        out.commit_index_update.map_or(true, |c| c <= verified_upto),
        "follower reports commit_index_update={:?} but this request only proved indexes <= {verified_upto} equal to the leader's log (entries 3,4 are a stale tail)",
        out.commit_index_update
    );
}

// ---------------------------------------------------------------------------------------------
// F-C09a  unacknowledged voters are missing from match_index => they drop out of the quorum
// ---------------------------------------------------------------------------------------------
#[tokio::test]
async fn replay_f_c09a_every_voter_is_in_the_commit_denominator() {
    use crate::raft_role::role_state::RaftRoleState;
    let mut leader = LeaderState::<MockTypeConfig>::new(1, Arc::new(RaftNodeConfig::default()));
    leader.init_peers_next_index_and_match_index(10, vec![2, 3, 4, 5]).expect("init");
    let missing: Vec<u32> = [2u32, 3, 4, 5].into_iter().filter(|p| leader.match_index(*p).is_none()).collect();
    assert!(
        missing.is_empty(),
        "after init_peers_next_index_and_match_index(10, [2,3,4,5]) peers {missing:?} have no match_index entry; calculate_new_commit_index iterates the PRESENT keys, so one ACK commits with 2 of 5 voters"
    );
}

// ---------------------------------------------------------------------------------------------
// F-C37a  put-with-TTL 0 becomes a key without TTL
// ---------------------------------------------------------------------------------------------
#[test]
fn replay_f_c37a_ttl_zero_round_trips() {
    use bytes::Bytes;
    let op = crate::client::WriteOperation::Insert {
        key: Bytes::from_static(b"k"),
        value: Bytes::from_static(b"v"),
        ttl_secs: Some(0),
    };
    let wc = crate::raft_role::leader_state::write_op_to_proto(op);
    let cmd = Command::try_from(wc).expect("decodes");
    match cmd {
        Command::Insert { ttl_secs, .. } => assert_eq!(
            ttl_secs,
            Some(0),
            "put_with_ttl(k, v, 0) reaches the state machine as ttl_secs={ttl_secs:?} (no expiry) instead of Some(0)"
        ),
        other => panic!("unexpected command {other:?}"),
    }
}

// ---------------------------------------------------------------------------------------------
// F-C12a  leader steps down on a higher-term ClusterConfUpdate but leaves the read lease valid
// ---------------------------------------------------------------------------------------------
#[tokio::test]
async fn replay_f_c12a_conf_update_step_down_revokes_lease_at_once() {
    use crate::raft_role::role_state::RaftRoleState;
    use crate::maybe_clone_oneshot::MaybeCloneOneshot;
    use d_engine_proto::server::cluster::ClusterConfChangeRequest;
    use tokio::sync::{mpsc, watch};

    let (_graceful_tx, graceful_rx) = watch::channel(());
    let mut context = mock_raft_context("/tmp/verif_replay_f_c12a", graceful_rx, None);
    let mut membership = MockMembership::<MockTypeConfig>::new();
    membership.expect_can_rejoin().returning(|_, _| Ok(()));
    membership.expect_get_cluster_conf_version().returning(|| 1);
    context.membership = Arc::new(membership);

    let mut state = LeaderState::<MockTypeConfig>::new(1, context.node_config.clone());
    state.update_current_term(3);
    // a lease renewed by an earlier quorum ACK, still 60 s in the future
    let now = crate::raft_role::read_lease::now_ms();
    state.shared_state.lease.renew(3, now + 60_000);
    assert!(state.shared_state.lease.is_valid(now), "setup: lease must be valid before the event");

    let request = ClusterConfChangeRequest { id: 2, term: 5, version: 1, change: None };
    let (resp_tx, _resp_rx) = <MaybeCloneOneshot as RaftOneshot<_>>::new();
    let (internal_event_tx, mut internal_event_rx) = mpsc::unbounded_channel();
    state
        .handle_inbound_event(InboundEvent::ClusterConfUpdate(request, resp_tx), &context, internal_event_tx)
        .await
        .unwrap();
    assert!(
        matches!(internal_event_rx.try_recv(), Ok(InternalEvent::BecomeFollower(Some(2)))),
        "setup: the leader decided to step down"
    );
    let now2 = crate::raft_role::read_lease::now_ms();
    assert!(
        !state.shared_state.lease.is_valid(now2),
        "leader of term 3 saw term 5 and queued BecomeFollower, yet ReadLease::is_valid() is still true: lease reads keep being served until the event is processed"
    );
}

// ---------------------------------------------------------------------------------------------
// F-C16a  snapshot label is older than the state the engine captures
// ---------------------------------------------------------------------------------------------
#[tokio::test]
async fn replay_f_c16a_snapshot_boundary_matches_captured_state() {
    use bytes::Bytes;
    let temp_dir = tempfile::tempdir().unwrap();
    let temp_path = temp_dir.path().join("verif_replay_f_c16a");
    let mut sm = MockStateMachine::new();
    // the engine has applied entries 1..=5; generate_snapshot_data dumps its CURRENT map (state at 5)
    sm.expect_last_applied().returning(|| LogId { index: 5, term: 1 });
    sm.expect_entry_term().returning(|_| Some(1));
    sm.expect_generate_snapshot_data().returning(|path, _label| {
        std::fs::create_dir_all(path.clone()).unwrap();
        std::fs::create_dir(path.join("state_machine")).unwrap();
        Ok(Bytes::from(vec![0; 32]))
    });
    let mut config = snapshot_config(temp_path.to_path_buf());
    config.retained_log_entries = 1; // the smallest value RaftConfig::validate() accepts
    let handler = crate::state_machine_handler::DefaultStateMachineHandler::<MockTypeConfig>::new_without_watch(
        1,
        0,
        Arc::new(sm),
        config,
        MockSnapshotPolicy::new(),
    );
    let (metadata, _path) = handler.create_snapshot().await.expect("snapshot created");
    assert_eq!(
        metadata.last_included,
        Some(LogId { index: 5, term: 1 }),
        "the engine captured the state at applied index 5 but the snapshot is labelled {:?}: entry 5 is re-applied on top of a state that already contains it",
        metadata.last_included
    );
}

// ---------------------------------------------------------------------------------------------
// F-C01a  a node that steps down WITHIN its term forgets its vote and can vote again in that term
// ---------------------------------------------------------------------------------------------
#[tokio::test]
async fn replay_f_c01a_step_down_in_same_term_keeps_the_vote() {
    use d_engine_proto::server::election::{VoteRequest, VotedFor};
    use tokio::sync::watch;
    let (_graceful_tx, graceful_rx) = watch::channel(());
    let mut raft = MockBuilder::new(graceful_rx).build_raft();
    // mocks sufficient for Follower -> Candidate -> Leader (same shape as raft_comprehensive_tests)
    let mut raft_log = MockRaftLog::new();
    raft_log.expect_last_entry_id().returning(|| 11);
    raft_log.expect_durable_index().returning(|| 11);
    raft_log.expect_flush().returning(|| Ok(()));
    raft_log.expect_calculate_majority_matched_index().returning(|_, _, _| Some(11));
    raft_log.expect_load_hard_state().returning(|| Ok(None));
    raft_log.expect_save_hard_state().returning(|_| Ok(()));
    let mut replication_handler = MockReplicationCore::<MockTypeConfig>::new();
    replication_handler.expect_prepare_batch_requests().returning(|_, _, _, _, _| Ok(PrepareResult::default()));
    raft.ctx.storage.raft_log = Arc::new(raft_log);
    raft.ctx.handlers.replication_handler = replication_handler;
    let mut membership = MockMembership::<MockTypeConfig>::new();
    membership.expect_is_single_node_cluster().returning(|| false);
    membership.expect_voters().returning(|| vec![node(2), node(3)]);
    membership.expect_replication_peers().returning(|| vec![node(2), node(3)]);
    membership.expect_get_peers_id_with_condition().returning(|_| vec![2, 3]);
    raft.ctx.membership = Arc::new(membership);
    raft.handle_internal_event(InternalEvent::BecomeCandidate).await.expect("become candidate");
    // the node voted for itself in its current term and became leader of it
    let term = raft.role.current_term();
    raft.role
        .state_mut()
        .update_voted_for(VotedFor { voted_for_id: raft.node_id, voted_for_term: term, committed: false })
        .unwrap();
    raft.handle_internal_event(InternalEvent::BecomeLeader).await.expect("become leader");
    assert_eq!(raft.role.current_term(), term, "setup: leader of the term it voted in");
    // it steps down inside the same term (noop timeout / failed noop commit / self removal paths)
    raft.handle_internal_event(InternalEvent::BecomeFollower(None)).await.expect("step down");
    assert_eq!(raft.role.current_term(), term, "setup: still the same term");
    let vote_after = raft.role.state().voted_for().unwrap();
    // a delayed RequestVote of ANOTHER candidate for the SAME term now reaches the node
    let handler = ElectionHandler::<MockTypeConfig>::new(raft.node_id);
    let mut raft_log = MockRaftLog::new();
    raft_log.expect_last_log_id().returning(|| None);
    let update = handler
        .handle_vote_request(
            VoteRequest { term, candidate_id: 99, last_log_index: 0, last_log_term: 0 },
            term,
            vote_after,
            &Arc::new(raft_log),
        )
        .await
        .unwrap();
    assert!(
        update.new_voted_for.is_none(),
        "node {} voted for itself in term {term}, stepped down in the same term (vote became {:?}) and then granted candidate 99 a second vote for term {term}",
        raft.node_id,
        vote_after
    );
}

// ---------------------------------------------------------------------------------------------
// F-C02a  a granted vote is acknowledged without having been written to stable storage
// ---------------------------------------------------------------------------------------------
#[tokio::test]
async fn replay_f_c02a_vote_is_saved_before_it_is_acknowledged() {
    use crate::maybe_clone_oneshot::MaybeCloneOneshot;
    use crate::raft_role::follower_state::FollowerState;
    use crate::raft_role::role_state::RaftRoleState;
    use d_engine_proto::server::election::{VoteRequest, VotedFor};
    use std::sync::atomic::{AtomicUsize, Ordering};
    use tokio::sync::{mpsc, watch};

    let (_graceful_tx, graceful_rx) = watch::channel(());
    let (mut context, _temp_dir) = mock_raft_context_with_temp(graceful_rx, None);
    // count every write of the hard state to stable storage
    let saves = Arc::new(AtomicUsize::new(0));
    let saves2 = saves.clone();
    let mut raft_log = MockRaftLog::new();
    raft_log.expect_last_log_id().returning(|| None);
    raft_log.expect_save_hard_state().returning(move |_| {
        saves2.fetch_add(1, Ordering::SeqCst);
        Ok(())
    });
    context.storage.raft_log = Arc::new(raft_log);
    // the REAL vote decision
    context.handlers.election_handler = {
        let mut eh = MockElectionCore::<MockTypeConfig>::new();
        eh.expect_handle_vote_request().returning(|req, _, _, _| {
            Ok(StateUpdate {
                new_voted_for: Some(VotedFor { voted_for_id: req.candidate_id, voted_for_term: req.term, committed: false }),
                term_update: Some(req.term),
            })
        });
        eh
    };
    let mut state = FollowerState::<MockTypeConfig>::new(1, context.node_config.clone(), None, None);
    let (resp_tx, mut resp_rx) = MaybeCloneOneshot::new();
    let (internal_event_tx, _internal_event_rx) = mpsc::unbounded_channel();
    let event = InboundEvent::ReceiveVoteRequest(
        VoteRequest { term: 7, candidate_id: 2, last_log_index: 0, last_log_term: 0 },
        resp_tx,
    );
    state.handle_inbound_event(event, &context, internal_event_tx).await.expect("handled");
    let reply = resp_rx.recv().await.unwrap().unwrap();
    assert!(reply.vote_granted, "setup: the vote was granted and acknowledged");
    assert!(
        saves.load(Ordering::SeqCst) >= 1,
        "the vote for candidate 2 in term 7 was acknowledged but RaftLog::save_hard_state was called {} times: a crash now restarts the node with its old term and no vote, and it can vote again in term 7",
        saves.load(Ordering::SeqCst)
    );
}

// ---------------------------------------------------------------------------------------------
// F-C05a  AppendEntries with the virtual prev (0,0) wipes a follower log that agrees with the leader
// ---------------------------------------------------------------------------------------------
#[tokio::test]
async fn replay_f_c05a_virtual_prev_keeps_agreeing_entries() {
    use bytes::Bytes;
    use d_engine_proto::common::EntryPayload;
    let ctx = BufferedRaftLogTestContext::new(
        PersistenceStrategy::MemFirst,
        FlushPolicy::Batch { idle_flush_interval_ms: 1000 },
        "verif_replay_f_c05a",
    );
    // the follower holds entries 1..=10 of term 1, all identical to the leader's (and, say, committed)
    ctx.append_entries(1, 10, 1).await;
    assert_eq!(ctx.raft_log.last_entry_id(), 10);
    // leader side: handle_peer_stream_error reset next_index to match.unwrap_or(0)+1 = 1 (no ACK seen yet),
    // so the next request has prev=(0,0) and carries the first `cap` entries only (cap = 3 here)
    let first_batch: Vec<Entry> = (1..=3u64)
        .map(|index| Entry { index, term: 1, payload: Some(EntryPayload::command(Bytes::from(b"data".to_vec()))) })
        .collect();
    ctx.raft_log.filter_out_conflicts_and_append(0, 0, first_batch).await.expect("accepted");
    let survivors: Vec<u64> = (1..=10u64).filter(|i| ctx.raft_log.entry_term(*i) == Some(1)).collect();
    assert_eq!(
        survivors,
        (1..=10u64).collect::<Vec<_>>(),
        "every one of the follower's entries 1..=10 agreed with the leader, yet after an accepted AppendEntries(prev=(0,0), entries 1..=3) only {survivors:?} remain (last_entry_id={})",
        ctx.raft_log.last_entry_id()
    );
}

// ---------------------------------------------------------------------------------------------
// F-C35a  a storage error while reading is reported to the client as "key absent"
//         (RocksDBStateMachine::get returns Err(NotServing) while a snapshot is being restored)
// ---------------------------------------------------------------------------------------------
#[test]
fn replay_f_c35a_a_storage_error_is_not_reported_as_absent() {
    use crate::state_machine_handler::DefaultStateMachineHandler;
    use crate::state_machine_handler::StateMachineHandler;
    let mut sm = MockStateMachine::new();
    // key "k" EXISTS in the store, but the engine cannot serve reads right now
    sm.expect_get().returning(|_| {
        Err(StorageError::NotServing("State machine is restoring from snapshot".to_string()).into())
    });
    let handler = DefaultStateMachineHandler::<MockTypeConfig>::new_without_watch(
        1,
        0,
        Arc::new(sm),
        crate::test_utils::snapshot_config(std::path::PathBuf::from("/tmp/verif_replay_f_c35a")),
        MockSnapshotPolicy::new(),
    );
    let reply = handler.read_from_state_machine(vec![bytes::Bytes::from_static(b"k")]);
    // every read path turns `None` into a SUCCESSFUL reply with no entries (`unwrap_or_default()`),
    // which both clients re-align to "k is absent"
    assert!(
        reply.is_some(),
        "read_from_state_machine returned None for an existing key whose read failed: the client is told the key is absent"
    );
}

// ---------------------------------------------------------------------------------------------
// F-C06a  the commit handler forwards entries to the state-machine worker from `last_applied + 1`,
//         but `last_applied` only moves when the (asynchronous) worker has applied them: a second
//         commit notification that arrives before the worker has caught up forwards the same
//         entries again, and the worker applies every batch it receives
// ---------------------------------------------------------------------------------------------
#[derive(Debug, Clone, Copy)]
struct RealApplyPathConfig;
impl TypeConfig for RealApplyPathConfig {
    type R = MockRaftLog;
    type SE = MockStorageEngine;
    type E = MockElectionCore<Self>;
    type TR = MockTransport<Self>;
    type SM = MockStateMachine;
    type M = MockMembership<Self>;
    type REP = MockReplicationCore<Self>;
    type C = MockCommitHandler;
    type SMH = crate::state_machine_handler::DefaultStateMachineHandler<Self>;
    type SNP = MockSnapshotPolicy;
    type PE = MockPurgeExecutor;
}

#[tokio::test]
async fn replay_f_c06a_no_index_is_handed_to_the_apply_worker_twice() {
    use crate::commit_handler::{CommitHandlerDependencies, DefaultCommitHandler};
    use crate::state_machine_handler::{DefaultStateMachineHandler, StateMachineHandler};
    use d_engine_proto::common::EntryPayload;
    // the REAL state machine handler (pending_range / update_pending / last_applied), nothing applied yet
    let smh = Arc::new(DefaultStateMachineHandler::<RealApplyPathConfig>::new_without_watch(
        1,
        0,
        Arc::new(MockStateMachine::new()),
        crate::test_utils::snapshot_config(std::path::PathBuf::from("/tmp/verif_replay_f_c06a")),
        MockSnapshotPolicy::new(),
    ));
    let mut raft_log = MockRaftLog::new();
    raft_log.expect_get_entries_range().returning(|range| {
        Ok(range
            .map(|index| Entry { index, term: 1, payload: Some(EntryPayload::command(bytes::Bytes::from_static(b"x"))) })
            .collect())
    });
    let (sm_apply_tx, mut sm_apply_rx) = tokio::sync::mpsc::unbounded_channel();
    let (internal_event_tx, _internal_event_rx) = tokio::sync::mpsc::unbounded_channel();
    let (_commit_tx, commit_rx) = tokio::sync::mpsc::unbounded_channel();
    let (_shutdown_tx, shutdown_rx) = tokio::sync::watch::channel(());
    let handler = DefaultCommitHandler::<RealApplyPathConfig>::new(
        1,
        0,
        1,
        CommitHandlerDependencies {
            state_machine_handler: smh.clone(),
            raft_log: Arc::new(raft_log),
            membership: Arc::new(MockMembership::new()),
            internal_event_tx,
            sm_apply_tx,
            shutdown_signal: shutdown_rx,
            max_batch_size: 10,
        },
        commit_rx,
    );
    // commit index 2 is announced; the worker is busy (it has not applied anything yet) ...
    smh.update_pending(2);
    handler.process_batch().await.unwrap();
    // ... when commit index 3 is announced
    smh.update_pending(3);
    handler.process_batch().await.unwrap();
    let mut forwarded: Vec<u64> = vec![];
    while let Ok(batch) = sm_apply_rx.try_recv() {
        forwarded.extend(batch.iter().map(|e| e.index));
    }
    let mut seen = HashSet::new();
    let twice: Vec<u64> = forwarded.iter().copied().filter(|i| !seen.insert(*i)).collect();
    assert!(
        twice.is_empty(),
        "indexes {twice:?} were handed to the apply worker twice (forwarded in this order: {forwarded:?}); the worker applies every batch it receives"
    );
}

// ---------------------------------------------------------------------------------------------
// F-C19a  TermSegments: after more than MAX_TERM_SEGMENTS (1024) term changes in the log, a term lookup for an
//         index below the current term's first index walks `0..seg_count` over arrays of 1024 slots
// ---------------------------------------------------------------------------------------------
#[test]
fn replay_f_c19a_term_lookup_after_many_term_changes_answers_like_a_plain_log() {
    use crate::storage::TermSegments;
    let segs = TermSegments::new();
    // a log in which every entry belongs to a new term: 1030 leadership changes
    let entries: Vec<Entry> = (1..=1030u64).map(|i| Entry { index: i, term: i, payload: None }).collect();
    segs.on_append(&entries);
    // a plain log answers: entry 5 has term 5
    let got = std::panic::catch_unwind(std::panic::AssertUnwindSafe(|| segs.get(5)));
    assert!(got.is_ok(), "TermSegments::get(5) panicked (index out of bounds in the segment arrays) after 1030 term changes");
    // beyond its capacity the index may defer to the entries themselves (None), but it must never answer another term
    let got = got.unwrap();
    assert!(got.is_none() || got == Some(5), "a plain indexed log answers term 5 for index 5, TermSegments answered {got:?}");
}
