// Replay / regression tests compiled INSIDE d-engine-server (hook: `#[cfg(all(test, d_engine_verif))] mod verif_replays`
// at the end of d-engine-server/src/lib.rs). Each test states a listed property on a concrete input against the
// real code: it FAILS while the recorded defect exists and PASSES on a tree where it is repaired.
//
//   cd /repo && RUSTFLAGS='--cfg d_engine_verif' cargo test -p d-engine-server --lib --offline verif_replays
use std::collections::HashSet;
use std::sync::Arc;

use d_engine_core::ElectionCore;
use d_engine_core::ElectionHandler;
use d_engine_core::Membership;
use d_engine_core::MockRaftLog;
use d_engine_core::MockStateMachine;
use d_engine_core::MockStorageEngine;
use d_engine_core::MockTransport;
use d_engine_core::RaftNodeConfig;
use d_engine_core::VoteResult;
use d_engine_proto::common::AddNode;
use d_engine_proto::common::LogId;
use d_engine_proto::common::MembershipChange;
use d_engine_proto::common::NodeRole::Follower;
use d_engine_proto::common::NodeStatus;
use d_engine_proto::common::PromoteLearner;
use d_engine_proto::common::membership_change::Change;
use d_engine_proto::server::cluster::NodeMeta;
use d_engine_proto::server::election::VoteResponse;

use d_engine_core::MockCommitHandler;
use d_engine_core::MockPurgeExecutor;
use d_engine_core::MockReplicationCore;
use d_engine_core::MockSnapshotPolicy;
use d_engine_core::MockStateMachineHandler;
use d_engine_core::TypeConfig;

use crate::membership::RaftMembership;

/// the production Membership and the production election code; storage, log and network are mocks
#[derive(Debug, Clone, Copy)]
struct TC;
impl TypeConfig for TC {
    type R = MockRaftLog;
    type SE = MockStorageEngine;
    type E = ElectionHandler<Self>;
    type TR = MockTransport<Self>;
    type SM = MockStateMachine;
    type M = RaftMembership<Self>;
    type REP = MockReplicationCore<Self>;
    type C = MockCommitHandler;
    type SMH = MockStateMachineHandler<Self>;
    type SNP = MockSnapshotPolicy;
    type PE = MockPurgeExecutor;
}

// ---------------------------------------------------------------------------------------------
// F-C03a  a node started alone and later expanded wins an election without any vote
//         (real RaftMembership + real ElectionHandler; only log and transport are mocks)
// ---------------------------------------------------------------------------------------------
#[tokio::test]
async fn replay_f_c03a_expanded_single_node_needs_real_votes() {
    // node 1 bootstraps alone ...
    let initial_cluster = vec![NodeMeta {
        id: 1,
        address: "127.0.0.1:9081".to_string(),
        role: Follower as i32,
        status: NodeStatus::Active.into(),
    }];
    let membership: RaftMembership<TC> = RaftMembership::new(1, initial_cluster, RaftNodeConfig::default()).0;
    assert!(membership.is_single_node_cluster().await, "a node that is alone is a single-node cluster");
    // ... then nodes 2 and 3 join as learners and are promoted to voters (committed membership changes)
    for id in [2u32, 3u32] {
        membership
            .apply_config_change(MembershipChange {
                change: Some(Change::AddNode(AddNode {
                    node_id: id,
                    address: format!("127.0.0.1:908{id}"),
                    status: NodeStatus::Promotable as i32,
                })),
            })
            .await
            .expect("add learner");
        membership
            .apply_config_change(MembershipChange { change: Some(Change::Promote(PromoteLearner { node_id: id, status: NodeStatus::Active as i32 })) })
            .await
            .expect("promote");
    }
    let voters: Vec<u32> = membership.voters().await.iter().map(|n| n.id).collect();
    assert_eq!(voters.len(), 2, "two other voters now: {voters:?}");

    let handler = ElectionHandler::<TC>::new(1);
    let mut raft_log = MockRaftLog::new();
    raft_log.expect_last_log_id().returning(|| Some(LogId { index: 5, term: 1 }));
    let mut transport = MockTransport::<TC>::new();
    // nobody grants a vote
    transport.expect_send_vote_requests().returning(|_, _, _| {
        Ok(VoteResult {
            peer_ids: HashSet::from([2, 3]),
            responses: vec![
                Ok(VoteResponse { term: 2, vote_granted: false, last_log_index: 5, last_log_term: 1 }),
                Ok(VoteResponse { term: 2, vote_granted: false, last_log_index: 5, last_log_term: 1 }),
            ],
        })
    });
    let result = handler
        .broadcast_vote_requests(2, Arc::new(membership), &Arc::new(raft_log), &Arc::new(transport), &Arc::new(RaftNodeConfig::default()))
        .await;
    assert!(
        result.is_err(),
        "candidate 1 won term 2 although the current membership has voters {{2,3}} and neither granted a vote"
    );
}

// ---------------------------------------------------------------------------------------------
// F-C23a  an overwrite WITHOUT a TTL (plain put, or successful CAS) keeps the key's earlier TTL:
//         the new value is deleted when the OLD TTL elapses (both engines)
// ---------------------------------------------------------------------------------------------
async fn f_c23a_overwrite_without_ttl_survives_old_ttl<S: d_engine_core::StateMachine>(
    sm: &S,
    lease: &crate::storage::TtlLease,
    second: d_engine_core::Command,
) -> Option<std::time::SystemTime> {
    use bytes::Bytes;
    use d_engine_core::{ApplyEntry, Command};
    let first = ApplyEntry {
        index: 1,
        term: 1,
        command: Command::Insert { key: Bytes::from_static(b"k"), value: Bytes::from_static(b"short-lived"), ttl_secs: Some(3600) },
    };
    sm.apply_chunk(&[first]).await.unwrap();
    assert!(lease.get_expiration(b"k").is_some(), "the TTL put registers an expiry");
    sm.apply_chunk(&[ApplyEntry { index: 2, term: 1, command: second }]).await.unwrap();
    assert_eq!(sm.get(b"k").unwrap(), Some(Bytes::from_static(b"permanent")));
    lease.get_expiration(b"k")
}

#[tokio::test]
async fn replay_f_c23a_put_without_ttl_cancels_the_earlier_ttl_file_engine() {
    use bytes::Bytes;
    let dir = tempfile::TempDir::new().unwrap();
    let mut sm = crate::storage::FileStateMachine::new(dir.path().to_path_buf()).await.unwrap();
    let lease = Arc::new(crate::storage::TtlLease::new(d_engine_core::config::LeaseConfig::default()));
    sm.set_lease(lease.clone());
    sm.load_lease_data().await.unwrap();
    let left = f_c23a_overwrite_without_ttl_survives_old_ttl(
        &sm,
        &lease,
        d_engine_core::Command::Insert { key: Bytes::from_static(b"k"), value: Bytes::from_static(b"permanent"), ttl_secs: None },
    )
    .await;
    assert!(
        left.is_none(),
        "put(k, ttl=3600) then put(k) without TTL: k still carries the first put's expiry {left:?}; the background cleanup will delete the permanent value"
    );
}

#[tokio::test]
async fn replay_f_c23a_successful_cas_cancels_the_earlier_ttl_file_engine() {
    use bytes::Bytes;
    let dir = tempfile::TempDir::new().unwrap();
    let mut sm = crate::storage::FileStateMachine::new(dir.path().to_path_buf()).await.unwrap();
    let lease = Arc::new(crate::storage::TtlLease::new(d_engine_core::config::LeaseConfig::default()));
    sm.set_lease(lease.clone());
    sm.load_lease_data().await.unwrap();
    let left = f_c23a_overwrite_without_ttl_survives_old_ttl(
        &sm,
        &lease,
        d_engine_core::Command::CompareAndSwap {
            key: Bytes::from_static(b"k"),
            expected: Some(Bytes::from_static(b"short-lived")),
            value: Bytes::from_static(b"permanent"),
        },
    )
    .await;
    assert!(
        left.is_none(),
        "put(k, ttl=3600) then a successful CAS on k (no TTL): k still carries the first put's expiry {left:?}"
    );
}

// ---------------------------------------------------------------------------------------------
// F-C13b  the embedded client's read handle answers a client-requested eventual read from local state
//         even when the server disallows client overrides and its default policy is linearizable:
//         EmbeddedReadHandle is built from (state machine, lease, cmd_tx) only - exactly as EmbeddedEngine does -
//         so no read_consistency setting can reach this path
// ---------------------------------------------------------------------------------------------
#[tokio::test]
async fn replay_f_c13b_embedded_eventual_read_is_served_under_the_servers_policy_when_overrides_are_disabled() {
    use bytes::Bytes;
    use d_engine_core::config::ReadConsistencyPolicy;
    // the server's configuration: every read is to be served as a linearizable read
    let mut cfg = RaftNodeConfig::default();
    cfg.raft.read_consistency.allow_client_override = false;
    cfg.raft.read_consistency.default_policy = ReadConsistencyPolicy::LinearizableRead;

    let mut sm = MockStateMachine::new();
    sm.expect_get_multi().returning(|keys| Ok(keys.iter().map(|_| Some(Bytes::from_static(b"local"))).collect()));
    let (cmd_tx, mut cmd_rx) = tokio::sync::mpsc::channel(4);
    // as in EmbeddedEngine::client(): EmbeddedReadHandle::new(sm, node.read_lease(), node.cmd_tx.clone())
    let handle = crate::api::EmbeddedReadHandle::<d_engine_core::MockTypeConfig>::new(
        Arc::new(sm),
        Arc::new(d_engine_core::ReadLease::new()),
        cmd_tx,
    );
    let answer = handle
        .get_batch(&[Bytes::from_static(b"k")], ReadConsistencyPolicy::EventualConsistency, 1, std::time::Duration::from_millis(50))
        .await;
    // under the server's policy the read has to reach the Raft loop (which resolves the policy: determine_read_policy)
    let reached_raft_loop = cmd_rx.try_recv().is_ok();
    assert!(
        reached_raft_loop,
        "allow_client_override={} default={:?}: the eventual read was answered from local state ({answer:?}) without entering the Raft loop",
        cfg.raft.read_consistency.allow_client_override,
        cfg.raft.read_consistency.default_policy
    );
}

// ---------------------------------------------------------------------------------------------
// F-C23b  a key whose TTL ran out while the node was down keeps its value for ever after the restart:
//         the File engine reloads the key from state.data, but TtlLease::reload drops registrations that are already
//         expired, so no cleanup will ever remove it
// ---------------------------------------------------------------------------------------------
#[tokio::test]
async fn replay_f_c23b_a_key_whose_ttl_ran_out_during_downtime_is_removed_after_restart_file_engine() {
    use bytes::Bytes;
    use d_engine_core::{ApplyEntry, Command, StateMachine};
    let dir = tempfile::TempDir::new().unwrap();
    {
        let mut sm = crate::storage::FileStateMachine::new(dir.path().to_path_buf()).await.unwrap();
        let lease = Arc::new(crate::storage::TtlLease::new(d_engine_core::config::LeaseConfig::default()));
        sm.set_lease(lease.clone());
        sm.start().await.unwrap();
        let put = ApplyEntry {
            index: 1,
            term: 1,
            command: Command::Insert { key: Bytes::from_static(b"k"), value: Bytes::from_static(b"short-lived"), ttl_secs: Some(1) },
        };
        sm.apply_chunk(&[put]).await.unwrap();
        assert!(lease.get_expiration(b"k").is_some(), "the TTL put registers an expiry");
        sm.stop().unwrap(); // graceful shutdown: persists ttl_state.bin next to state.data
    }
    tokio::time::sleep(std::time::Duration::from_millis(2200)).await; // the node is down while the TTL elapses
    let mut sm = crate::storage::FileStateMachine::new(dir.path().to_path_buf()).await.unwrap();
    let lease = Arc::new(crate::storage::TtlLease::new(d_engine_core::config::LeaseConfig::default()));
    sm.set_lease(lease.clone());
    sm.start().await.unwrap();
    let removed = sm.lease_background_cleanup().await.unwrap();
    let still_there = sm.get(b"k").unwrap();
    assert!(
        still_there.is_none(),
        "put(k, ttl=1s), restart 2.2 s later, expiry cleanup ran (removed {removed:?}): k is still readable ({still_there:?}) and the reloaded lease knows no expiry for it ({:?}), so no later cleanup will remove it",
        lease.get_expiration(b"k")
    );
}

// ---------------------------------------------------------------------------------------------
// F-C23c  an expired key survives every cleanup run as long as the ten lease entries that the cleanup samples first are
//         not expired: lease_background_cleanup takes `may_have_expired_keys` (documented: "samples first 10 entries,
//         may return false negatives") as a definitive "nothing to do"
// ---------------------------------------------------------------------------------------------
#[tokio::test]
async fn replay_f_c23c_an_expired_key_is_removed_by_the_cleanup_whatever_the_other_keys_are_file_engine() {
    use bytes::Bytes;
    use d_engine_core::{ApplyEntry, Command, Lease, StateMachine};
    let dir = tempfile::TempDir::new().unwrap();
    let mut sm = crate::storage::FileStateMachine::new(dir.path().to_path_buf()).await.unwrap();
    let lease = Arc::new(crate::storage::TtlLease::new(d_engine_core::config::LeaseConfig::default()));
    sm.set_lease(lease.clone());
    sm.start().await.unwrap();
    // 64 keys that will not expire during the test
    let mut chunk = Vec::new();
    for i in 0..64u64 {
        chunk.push(ApplyEntry {
            index: i + 1,
            term: 1,
            command: Command::Insert { key: Bytes::from(format!("long-{i}")), value: Bytes::from_static(b"v"), ttl_secs: Some(3600) },
        });
    }
    sm.apply_chunk(&chunk).await.unwrap();
    // one short-lived key that is not among the entries the sampling looks at (the map's iteration order depends on the
    // hasher, so the name is chosen by probing: a candidate the sampling would see is deleted again)
    let later = std::time::SystemTime::now() + std::time::Duration::from_secs(5);
    let mut index = 100u64;
    let mut short: Option<Bytes> = None;
    for c in 0..2000u32 {
        let key = Bytes::from(format!("short-{c}"));
        index += 1;
        sm.apply_chunk(&[ApplyEntry { index, term: 1, command: Command::Insert { key: key.clone(), value: Bytes::from_static(b"s"), ttl_secs: Some(1) } }]).await.unwrap();
        if !lease.may_have_expired_keys(later) {
            short = Some(key);
            break;
        }
        index += 1;
        sm.apply_chunk(&[ApplyEntry { index, term: 1, command: Command::Delete { key } }]).await.unwrap();
    }
    let short = short.expect("with 64 other entries some candidate lies outside the ten sampled ones");
    tokio::time::sleep(std::time::Duration::from_millis(2200)).await; // the short TTL (1 s) elapses
    let removed = sm.lease_background_cleanup().await.unwrap();
    let still_there = sm.get(&short).unwrap();
    assert!(
        still_there.is_none(),
        "{short:?} was written with ttl=1s, 2.2 s passed and the expiry cleanup ran (removed {removed:?}), but it is still readable ({still_there:?}); its registered expiry is {:?}",
        lease.get_expiration(&short)
    );
}
