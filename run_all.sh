#!/bin/sh
# runs every claimed check (quick tier by default) and prints a summary; evidence/*.json is rewritten
cd "$(dirname "$0")"
tier=${1:-quick}
for id in $(python3 -c "import json;print(' '.join(c['property_id'] for c in json.load(open('MANIFEST.json'))['checks']))"); do
  ./check $id --tier $tier > build/run_all.$id.log 2>&1; rc=$?
  echo "$id rc=$rc $(tail -1 build/run_all.$id.log)"
done
