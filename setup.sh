#!/bin/sh
# Builds what the checks need from files on disk only (offline): the Kani dependency graph for
# d-engine-core (cached under /verif/build/kani-target) and a warm Verus run.
set -e
cd "$(dirname "$0")"
mkdir -p build evidence replays
export CARGO_NET_OFFLINE=true
( cd /repo && cargo kani -p d-engine-core --features __test_support -Z stubbing -Z function-contracts \
    --target-dir /verif/build/kani-target --output-format terse --harness c01_cmp_higher_term_exact ) > build/setup-kani.log 2>&1 \
  || { tail -30 build/setup-kani.log; echo "setup: kani warm-up failed (checks will report UNDECIDED for Kani units)"; }
python3 tools/vx.py contracts/v_vote.vspec build/v_vote.rs > /dev/null && ( cd build && verus v_vote.rs > setup-verus.log 2>&1 || true )
echo setup done
