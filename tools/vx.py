#!/usr/bin/env python3
"""vx.py -- mechanical extraction of real functions from /repo into a single Verus file.

A unit is described by /verif/contracts/<unit>.vspec: Verus text (spec functions, stub
types with *assumed* contracts, lemmas) interleaved with `//@` directives that name the real
functions / items to copy from the repository's current working tree and the contract to
splice onto them.  Nothing executable of a function under proof is ever written in a
.vspec: the body always comes from /repo at generation time.

Directives (one per line, all start with `//@`):

  //@unit <name>
  //@item file=<path> kind=<struct|enum|const|fn> name=<Name> [derive=Clone,Copy] [as=<NewName>]
      copy a type / const definition; attributes and doc comments dropped, `map`s applied.
      (closed by //@end; may contain //@map lines)
  //@extract file=<path> fn=<name> [impl=<regex on impl header>] [as=<newname>] [vis=<text>]
  //@map <regex> => <replacement>        D4/S substitution on signature + body (logged)
  //@map? <regex> => <replacement>       same, but not an error when nothing matches
  //@sigmap <regex> => <replacement>     substitution on the signature only (logged)
  //@norule <D1|D2|D3|D5|R1|N1|N2|N3>    disable a rule for this function
  //@rule N8                             enable an opt-in rule for this function
  //@arms keep=<regex>                   rule A: keep only match arms whose pattern matches
  //@requires                            followed by `//@   <expr>,` lines
  //@ensures                             followed by `//@   [<obligation name>] <expr>,` lines
  //@loop <n>                            contract for loop ordinal n (0-based, source order)
  //@  invariant / decreases             followed by clause lines
  //@at /<regex>/[#n|#*] before|after|after_block   splice (after_block: the anchor ends with a block's `{`; splice after that block)
  (before|after) splice (n-th match when the anchor occurs several times; #*: at every match, at least one)
  //@at (old form)                       splice the following `//@   <text>` lines (proof blocks)
  //@end

Rewrite rules (closed list, every application logged with source line):
  D1  statements that are a tracing/println macro invocation are dropped
  D2  `let _timer = ScopedTimer::new(..);` and `metrics::<m>!(..)...;` statements dropped
  D3  `async` keyword and `.await` suffixes dropped
  D5  error payloads: `Err(<constructor/format!/into()>)` -> `Err(VErr)`, `.map_err(..)` dropped
  D6  statements under `#[cfg(test)]` (test-only notifications) dropped
  R1  the return value is named: `-> Ty` becomes `-> (ret: Ty)`
  N1  `for (&a, &b) in E {B}` / `for (a, b) in E` -> `for __kv in E { let a = *__kv.0; ... }`
  N2  leading `if C { continue; }` in a `for` body -> `if !(C) { rest }`
  N3  `if let P = E && C {A} else {B}` -> `match E { P if C => {A} _ => {B} }`; `if C && let P = E {A}` (no else) -> `if C { if let P = E {A} }`
  N4  `E.map_or(LIT, |p| B)` -> `(match E { Some(p) => B, None => LIT })` (definition of Option::map_or)
  N5  `E.map(|p| B).unwrap_or(LIT)` -> `(match E { Some(p) => B, None => LIT })`
  N7  `E.is_some_and(|p| B)` / `E.is_none_or(|p| B)` -> `match` (definitions)
  N9  `for (i, x) in E.into_iter().enumerate() {B}` (or `E.iter().enumerate()`) -> counter + plain `for`
  N8  `E.map(|p| B)` on an Option -> `match`
  N6  iterator chains `X.iter().position(|p| B)`, `X.iter().any(|p| B)`, `X.iter().all(|p| B)` and `X.iter().filter(|p| F).map(|q| E).collect()` ->
      explicit `for` loops (definitions of the adapters for side-effect-free closures)
  N10 (opt-in) `X.iter()|into_iter()[.zip(Y)] .map(|p| E) | .filter_map(|p| O.map(|q| E)) .collect()` -> explicit loop
      pushing into a Vec, inserting pairs into a HashMap (when the `let` is annotated HashMap) or building `Ok(vec)`
      (when every element is `Ok(..)`); zip becomes the stub `vx_zip` carrying Iterator::zip's contract
  F   suffix focus (`//@from after=/re/ havoc=a: T; b: U`): the statements up to and including the top-level statement
      matching the anchor are replaced by `self.vx_prefix()` (a stub with no contract: arbitrary effect on self) and
      `let a: T = vx_any();` for the named locals the suffix reads (arbitrary values) -- an over-approximation of the prefix
  T   `//@extract file=F impl=I fn=f default_file=G default_impl=J`: when impl I does not define f, the trait's default
      body (impl J in G) is extracted instead -- Rust's own method resolution
  N11 (opt-in) `E.and_then(|p| B)` on an Option -> `match` (definition)
  N12 (opt-in) `(A..B).rev().find_map(|p| BODY)` -> a `while` loop going from B-1 down to A that stops at the first Some
  N13 (opt-in) `M.remove_if_mut(K, |_, p| { BODY });` (DashMap) -> `match M.vx_take(K) { Some(mut p) => { let __rm = { BODY }; if !__rm
      { M.vx_put(K, p); } } None => {} }` (definition of DashMap::remove_if_mut: under the shard lock the closure gets the
      value mutably and its result decides removal; take/put-back is that single critical section written out; `p` is then an
      owned value instead of `&mut`, so a body that dereferences `*p` no longer type-checks -> UNDECIDED)
  A   arm focus (see //@arms)
  P   prefix focus (//@cut before=/re/): the function's statements from the anchor (a top-level
      statement) to the end are replaced by `return self.vx_rest()`, a stub with no contract
Attributes (`#[..]`), doc comments and ordinary comments are dropped with the signature.

Exit status of this tool (as a library: exception VxError) is about *extraction*; a lost
anchor or an unsupported construct is reported as UNDECIDED by the runner, never as a
violation.
"""
import hashlib
import json
import os
import re
import sys

REPO = os.environ.get("VERIF_REPO", "/repo")


class VxError(Exception):
    pass


# --------------------------------------------------------------------------------------
# Tokenizer (enough of Rust's lexical grammar for brace matching and statement rewriting)
# --------------------------------------------------------------------------------------
class Tok:
    __slots__ = ("kind", "text", "start", "end")

    def __init__(self, kind, text, start, end):
        self.kind, self.text, self.start, self.end = kind, text, start, end

    def __repr__(self):
        return "Tok(%s,%r,%d)" % (self.kind, self.text, self.start)


_ident_re = re.compile(r"[A-Za-z_][A-Za-z0-9_]*")
_num_re = re.compile(r"[0-9][0-9A-Za-z_]*(\.[0-9][0-9A-Za-z_]*)?")
_raw_re = re.compile(r'b?r(#*)"')
_PUNCT3 = ("<<=", ">>=", "...", "..=")
_PUNCT2 = ("::", "->", "=>", "==", "!=", "<=", ">=", "&&", "||", "+=", "-=", "*=", "/=",
           "%=", "^=", "&=", "|=", "<<", ">>", "..")


def tokenize(s, base=0):
    """Returns tokens, comments excluded (kind 'comment' tokens are kept out but positions are
    absolute: base + offset)."""
    toks = []
    i, n = 0, len(s)
    while i < n:
        c = s[i]
        if c.isspace():
            i += 1
            continue
        if s.startswith("//", i):
            j = s.find("\n", i)
            j = n if j < 0 else j
            toks.append(Tok("comment", s[i:j], base + i, base + j))
            i = j
            continue
        if s.startswith("/*", i):
            depth, j = 1, i + 2
            while j < n and depth:
                if s.startswith("/*", j):
                    depth += 1
                    j += 2
                elif s.startswith("*/", j):
                    depth -= 1
                    j += 2
                else:
                    j += 1
            toks.append(Tok("comment", s[i:j], base + i, base + j))
            i = j
            continue
        m = _raw_re.match(s, i)
        if m:
            closing = '"' + m.group(1)
            j = s.find(closing, m.end())
            if j < 0:
                raise VxError("unterminated raw string")
            j += len(closing)
            toks.append(Tok("str", s[i:j], base + i, base + j))
            i = j
            continue
        if c == '"' or (c == "b" and s.startswith('b"', i)):
            j = i + (2 if c == "b" else 1)
            while j < n and s[j] != '"':
                j += 2 if s[j] == "\\" else 1
            j += 1
            toks.append(Tok("str", s[i:j], base + i, base + j))
            i = j
            continue
        if c == "'":
            # char literal or lifetime
            m2 = re.match(r"'(\\.[^']*|[^\\'])'", s[i:])
            if m2:
                j = i + m2.end()
                toks.append(Tok("char", s[i:j], base + i, base + j))
                i = j
                continue
            m3 = _ident_re.match(s, i + 1)
            if m3:
                toks.append(Tok("lifetime", s[i:m3.end()], base + i, base + m3.end()))
                i = m3.end()
                continue
        m = _ident_re.match(s, i)
        if m:
            toks.append(Tok("ident", m.group(0), base + i, base + m.end()))
            i = m.end()
            continue
        m = _num_re.match(s, i)
        if m:
            toks.append(Tok("num", m.group(0), base + i, base + m.end()))
            i = m.end()
            continue
        for plist, ln in ((_PUNCT3, 3), (_PUNCT2, 2)):
            if s[i:i + ln] in plist:
                toks.append(Tok("punct", s[i:i + ln], base + i, base + i + ln))
                i += ln
                break
        else:
            toks.append(Tok("punct", c, base + i, base + i + 1))
            i += 1
    return toks


OPEN = {"(": ")", "[": "]", "{": "}"}
CLOSE = {v: k for k, v in OPEN.items()}


def code_toks(toks):
    return [t for t in toks if t.kind != "comment"]


def match_close(toks, i):
    """toks[i] is an opening delimiter; returns index of its matching closer."""
    depth = 0
    for j in range(i, len(toks)):
        t = toks[j]
        if t.kind == "punct":
            if t.text in OPEN:
                depth += 1
            elif t.text in CLOSE:
                depth -= 1
                if depth == 0:
                    return j
    raise VxError("unbalanced delimiter at offset %d" % toks[i].start)


def line_of(src, off):
    return src.count("\n", 0, off) + 1


# --------------------------------------------------------------------------------------
# Locating items in a source file
# --------------------------------------------------------------------------------------
def find_fn(src, name, impl_re=None, nth=0):
    """Returns dict(start, sig_start, body_open, body_close, impl_header) as byte offsets."""
    toks = code_toks(tokenize(src))
    impl_stack = []  # (header_text, close_index)
    found = []
    i = 0
    while i < len(toks):
        t = toks[i]
        while impl_stack and i > impl_stack[-1][1]:
            impl_stack.pop()
        if t.kind == "ident" and t.text in ("impl", "trait", "mod") and (
                i == 0 or toks[i - 1].text not in (":", "+", "<", "&", "(", ",", "->", "dyn")):
            # find the `{` that opens the block (skip generics / where clauses)
            j = i + 1
            angle = 0
            while j < len(toks):
                tj = toks[j]
                if tj.text == "{" and tj.kind == "punct":
                    break
                if tj.text == ";" and tj.kind == "punct":
                    j = None
                    break
                j += 1
            if j is not None and j < len(toks):
                close = match_close(toks, j)
                header = src[t.start:toks[j].start].strip()
                header = re.sub(r"\s+", " ", header)
                impl_stack.append((header, close))
                i = j + 1
                continue
        if t.kind == "ident" and t.text == "fn" and i + 1 < len(toks) and toks[i + 1].text == name:
            header = impl_stack[-1][0] if impl_stack else ""
            # skip impl/trait/mod wrappers of kind `mod` when matching impl_re
            headers = [h for h, _ in impl_stack]
            ok = True
            if impl_re is not None:
                ok = any(re.search(impl_re, h) for h in headers)
            # find body open `{` at delimiter depth 0 after fn, or `;` (trait decl)
            j = i + 2
            depth = 0
            body_open = None
            while j < len(toks):
                tj = toks[j]
                if tj.kind == "punct":
                    if tj.text in ("(", "["):
                        depth += 1
                    elif tj.text in (")", "]"):
                        depth -= 1
                    elif tj.text == "{" and depth == 0:
                        body_open = j
                        break
                    elif tj.text == ";" and depth == 0:
                        break
                j += 1
            if body_open is not None and ok:
                body_close = match_close(toks, body_open)
                # walk back over qualifiers and attributes
                k = i
                while k > 0:
                    p = toks[k - 1]
                    if p.kind == "ident" and p.text in ("pub", "async", "const", "unsafe", "default"):
                        k -= 1
                    elif p.text == ")" and k >= 4 and toks[k - 4].text == "pub":
                        k -= 4  # pub(crate) / pub(super)
                    elif p.text == ")" and k >= 5 and toks[k - 5].text == "pub":
                        k -= 5  # pub(in path)
                    elif p.text == "]":
                        # attribute: find its '#'
                        d, q = 0, k - 1
                        while q >= 0:
                            if toks[q].text == "]":
                                d += 1
                            elif toks[q].text == "[":
                                d -= 1
                                if d == 0:
                                    break
                            q -= 1
                        if q >= 1 and toks[q - 1].text == "#":
                            k = q - 1
                        else:
                            break
                    else:
                        break
                found.append(dict(start=toks[k].start, fn_tok=t.start,
                                  body_open=toks[body_open].start,
                                  body_close=toks[body_close].end,
                                  impl_header=" | ".join(headers)))
                i = body_close + 1
                continue
        i += 1
    if len(found) <= nth:
        raise VxError("anchor lost: fn %s (impl ~ %r) not found (%d candidates)" % (name, impl_re, len(found)))
    return found[nth]


def find_item(src, kind, name):
    """struct / enum / const / static item at any depth; returns (start, end) offsets excluding attrs."""
    toks = code_toks(tokenize(src))
    for i, t in enumerate(toks):
        if t.kind == "ident" and t.text == kind and i + 1 < len(toks) and toks[i + 1].text == name:
            k = i
            while k > 0 and (toks[k - 1].text == "pub" or (toks[k - 1].text == ")" and k >= 4 and toks[k - 4].text == "pub")):
                k -= 1 if toks[k - 1].text == "pub" else 4
            j = i + 2
            while j < len(toks):
                tj = toks[j]
                if tj.text == "{" or tj.text == "(":
                    c = match_close(toks, j)
                    if tj.text == "(":
                        # tuple struct: up to ';'
                        while toks[c].text != ";":
                            c += 1
                    return toks[k].start, toks[c].end
                if tj.text == ";":
                    return toks[k].start, tj.end
                if tj.text == "=" and kind in ("const", "static"):
                    while toks[j].text != ";":
                        if toks[j].text in OPEN:
                            j = match_close(toks, j)
                        j += 1
                    return toks[k].start, toks[j].end
                j += 1
    raise VxError("anchor lost: %s %s not found" % (kind, name))


# --------------------------------------------------------------------------------------
# Rewrite rules
# --------------------------------------------------------------------------------------
TRACE_MACROS = {"trace", "debug", "info", "warn", "error", "println", "eprintln", "debug_assert"}  # debug_assert!: compiled out of release builds
# //@puremacro /re/: a tracing macro whose argument text matches is dropped although it contains a construct that D1 treats
# as a possible side effect (e.g. an awaited getter); the unit states why it is a read (listed in the rule log)
PURE_MACRO_RES = []
SIDE_EFFECT_RE = re.compile(r"\.await|\.push\(|\.insert\(|\.send\(|\.remove\(|\.pop|\+=|-=|\.take\(|\.swap\(|\.store\(|\.fetch_")


class Edits:
    def __init__(self, text, base, src, relfile, log):
        self.text, self.base, self.src, self.relfile, self.log = text, base, src, relfile, log
        self.edits = []

    def add(self, rule, start, end, repl):
        """start/end absolute offsets into src"""
        self.edits.append((start, end, repl))
        self.log.append(dict(rule=rule, file=self.relfile, line=line_of(self.src, start),
                             before=self.src[start:end][:160], after=repl[:160]))


def _strip_stmt_ws(src, start, end):
    """extend a statement range backwards over indentation and forwards over the newline"""
    s = start
    while s > 0 and src[s - 1] in " \t":
        s -= 1
    e = end
    while e < len(src) and src[e] in " \t":
        e += 1
    if e < len(src) and src[e] == "\n" and (s == 0 or src[s - 1] == "\n"):
        e += 1
        return s, e
    return start, end


def rule_D1_D2(src, lo, hi, relfile, log, enabled):
    """returns list of (start,end,repl) over src[lo:hi]"""
    toks = code_toks(tokenize(src[lo:hi], lo))
    out = []
    i = 0
    n = len(toks)
    while i < n:
        t = toks[i]
        # D1: [tracing ::] name ! ( ... ) [;]
        if "D1" in enabled and t.kind == "ident" and t.text in TRACE_MACROS and i + 2 < n and toks[i + 1].text == "!" \
                and toks[i + 2].text in OPEN:
            start_i = i
            if i >= 2 and toks[i - 1].text == "::" and toks[i - 2].text == "tracing":
                start_i = i - 2
            c = match_close(toks, i + 2)
            inner = " ".join(x.text for x in toks[i + 3:c] if x.kind != "str").replace(" . ", ".").replace(" (", "(")
            if SIDE_EFFECT_RE.search(inner) and not any(re.search(rx, inner) for rx in PURE_MACRO_RES):
                raise VxError("D1: macro argument may have side effects at %s:%d" % (relfile, line_of(src, t.start)))
            prev = toks[start_i - 1].text if start_i > 0 else ""
            end = toks[c].end
            if prev == "=>":
                repl = "{}"
            else:
                if c + 1 < n and toks[c + 1].text == ";":
                    end = toks[c + 1].end
                repl = ""
            s, e = toks[start_i].start, end
            if repl == "":
                s, e = _strip_stmt_ws(src, s, e)
            out.append(("D1", s, e, repl))
            i = c + 1
            continue
        # D2a: let _timer = ScopedTimer::new(...);
        if "D2" in enabled and t.kind == "ident" and t.text == "let" and i + 4 < n and toks[i + 1].text.startswith("_") \
                and toks[i + 2].text == "=" and toks[i + 3].text == "ScopedTimer":
            j = i
            while toks[j].text != ";":
                if toks[j].text in OPEN:
                    j = match_close(toks, j)
                j += 1
            s, e = _strip_stmt_ws(src, t.start, toks[j].end)
            out.append(("D2", s, e, ""))
            i = j + 1
            continue
        # D2b: metrics::counter!(...)....;
        if "D2" in enabled and t.kind == "ident" and t.text == "metrics" and i + 3 < n and toks[i + 1].text == "::" \
                and toks[i + 3].text == "!":
            j = i
            while toks[j].text != ";":
                if toks[j].text in OPEN:
                    j = match_close(toks, j)
                j += 1
            s, e = _strip_stmt_ws(src, t.start, toks[j].end)
            out.append(("D2", s, e, ""))
            i = j + 1
            continue
        i += 1
    return out


def rule_D6(src, lo, hi, enabled):
    """statements guarded by #[cfg(test)] are not part of the production build: dropped"""
    out = []
    if "D6" not in enabled:
        return out
    toks = code_toks(tokenize(src[lo:hi], lo))
    n = len(toks)
    i = 0
    while i + 6 < n:
        if toks[i].text == "#" and toks[i + 1].text == "[" and toks[i + 2].text == "cfg" and toks[i + 3].text == "(" \
                and toks[i + 4].text == "test" and toks[i + 5].text == ")" and toks[i + 6].text == "]":
            j = i + 7
            while j < n and toks[j].text != ";":
                if toks[j].text in OPEN:
                    j = match_close(toks, j)
                j += 1
            s0, e0 = _strip_stmt_ws(src, toks[i].start, toks[min(j, n - 1)].end)
            out.append(("D6", s0, e0, ""))
            i = j + 1
            continue
        i += 1
    return out


def rule_D3(src, lo, hi, enabled):
    out = []
    if "D3" not in enabled:
        return out
    toks = code_toks(tokenize(src[lo:hi], lo))
    for i, t in enumerate(toks):
        if t.kind == "ident" and t.text == "await" and i > 0 and toks[i - 1].text == ".":
            out.append(("D3", toks[i - 1].start, t.end, ""))
    return out


ERR_PAYLOAD_RE = re.compile(r"Error::|Error\s*\{|format!|\.into\(\)|Error\(|Status::|\.to_string\(\)")


def rule_D5(src, lo, hi, enabled):
    out = []
    if "D5" not in enabled:
        return out
    toks = code_toks(tokenize(src[lo:hi], lo))
    n = len(toks)
    i = 0
    while i < n:
        t = toks[i]
        if t.kind == "ident" and t.text == "Err" and i + 1 < n and toks[i + 1].text == "(" and (
                i == 0 or toks[i - 1].text != "::" or (i >= 2 and toks[i - 2].text in ("Result",))):
            c = match_close(toks, i + 1)
            inner = src[toks[i + 1].end:toks[c].start].strip()
            nxt = toks[c + 1].text if c + 1 < n else ""
            is_pattern = nxt in ("=>", "=", "|", "if") and not (nxt == "=" and False)
            if not is_pattern and not re.fullmatch(r"[A-Za-z_][A-Za-z0-9_]*", inner) and ERR_PAYLOAD_RE.search(inner) \
                    and "Status::" not in inner:
                out.append(("D5", toks[i + 1].end, toks[c].start, "VErr"))
                i = c + 1
                continue
        if t.kind == "ident" and t.text == "map_err" and i > 0 and toks[i - 1].text == "." and i + 1 < n and toks[i + 1].text == "(":
            c = match_close(toks, i + 1)
            out.append(("D5", toks[i - 1].start, toks[c].end, ""))
            i = c + 1
            continue
        if t.kind == "ident" and t.text == "ok_or_else" and i > 0 and toks[i - 1].text == "." and i + 2 < n and toks[i + 1].text == "(" \
                and toks[i + 2].text == "||":
            c = match_close(toks, i + 1)
            out.append(("D5", t.start, toks[c].end, "ok_or(VErr)"))
            i = c + 1
            continue
        i += 1
    return out


def rule_N1(src, lo, hi, enabled):
    """for (&a, &b) in E { -> for __kv in E { let a = *__kv.0; let b = *__kv.1;"""
    out = []
    if "N1" not in enabled:
        return out
    toks = code_toks(tokenize(src[lo:hi], lo))
    n = len(toks)
    k = 0
    for i, t in enumerate(toks):
        if t.kind == "ident" and t.text == "for" and i + 1 < n and toks[i + 1].text == "(":
            c = match_close(toks, i + 1)
            if c + 1 < n and toks[c + 1].text == "in":
                pat = src[toks[i + 1].end:toks[c].start]
                parts = [p.strip() for p in pat.split(",") if p.strip()]
                if len(parts) != 2 or not all(re.fullmatch(r"&?\s*(mut\s+)?[a-z_][A-Za-z0-9_]*", p) for p in parts):
                    raise VxError("N1: unsupported for-pattern %r" % pat)
                # body open brace
                j = c + 2
                depth = 0
                while j < n:
                    if toks[j].text in ("(", "["):
                        depth += 1
                    elif toks[j].text in (")", "]"):
                        depth -= 1
                    elif toks[j].text == "{" and depth == 0:
                        break
                    j += 1
                if "N9" in enabled and re.search(r"\.(into_iter|iter)\(\)\s*(\.filter\(.*\))?\s*\.enumerate\(\)\s*$", src[toks[c + 2].start:toks[j].start].strip(), re.S):
                    continue    # an enumerate loop: rule N9 rewrites it
                var = "__kv%d" % k
                k += 1
                lets = []
                for idx, p in enumerate(parts):
                    if p.startswith("&"):
                        lets.append("let %s = *%s.%d;" % (p[1:].strip(), var, idx))
                    else:
                        lets.append("let %s = %s.%d;" % (p, var, idx))
                out.append(("N1", toks[i + 1].start, toks[c].end, var))
                expr = src[toks[c + 2].start:toks[j].start].strip()
                if not expr.endswith(")") and (expr.startswith("&") or any(p.startswith("&") for p in parts)):
                    # `for .. in &map` / `in map_ref`: Verus needs the explicit iterator
                    out.append(("N1", toks[c + 2].start, toks[j - 1].end, "(%s).iter()" % expr.lstrip("&")))
                out.append(("N1", toks[j].end, toks[j].end, " " + " ".join(lets)))
    return out


def rule_N2(src, lo, hi, enabled):
    """`if C { continue; }` as the first statement of a for body -> `if !(C) { rest }`"""
    out = []
    if "N2" not in enabled:
        return out
    toks = code_toks(tokenize(src[lo:hi], lo))
    n = len(toks)
    for i, t in enumerate(toks):
        if t.kind == "ident" and t.text == "for":
            j = i + 1
            depth = 0
            while j < n:
                if toks[j].text in ("(", "["):
                    depth += 1
                elif toks[j].text in (")", "]"):
                    depth -= 1
                elif toks[j].text == "{" and depth == 0:
                    break
                j += 1
            if j >= n:
                continue
            body_close = match_close(toks, j)
            # walk statements looking for `if C { continue; }` at body top level
            p = j + 1
            while p < body_close:
                if toks[p].text == "if" and toks[p].kind == "ident":
                    q = p + 1
                    d = 0
                    while q < body_close:
                        if toks[q].text in ("(", "["):
                            d += 1
                        elif toks[q].text in (")", "]"):
                            d -= 1
                        elif toks[q].text == "{" and d == 0:
                            break
                        q += 1
                    qc = match_close(toks, q)
                    inner = [x.text for x in toks[q + 1:qc]]
                    if inner in (["continue", ";"], ["continue"]) and (qc + 1 >= n or toks[qc + 1].text != "else"):
                        cond = src[toks[p + 1].start:toks[q].start].strip()
                        out.append(("N2", toks[p].start, toks[qc].end, "if !(%s) {" % cond))
                        out.append(("N2", toks[body_close].start, toks[body_close].start, "} "))
                        p = qc + 1
                        continue
                    if len(inner) >= 2 and inner[-2:] == ["continue", ";"] and "continue" not in inner[:-2] and "break" not in inner \
                            and (qc + 1 >= n or toks[qc + 1].text != "else"):
                        # `if C { stmts; continue; } rest`  ->  `if C { stmts } else { rest }`
                        ci = qc - 2  # token index of `continue`
                        out.append(("N2", toks[ci].start, toks[qc].end, "} else {"))
                        out.append(("N2", toks[body_close].start, toks[body_close].start, "} "))
                        p = qc + 1
                        continue
                    break
                # skip one statement
                while p < body_close and toks[p].text != ";":
                    if toks[p].text in OPEN:
                        p = match_close(toks, p)
                        if toks[p].text == "}":
                            break
                    p += 1
                p += 1
                # only leading let/if statements are considered; stop at first non-let
                if p < body_close and toks[p].text not in ("let", "if") \
                        and not (toks[p].text in ("trace", "debug", "info", "warn", "error") and p + 1 < body_close and toks[p + 1].text == "!"):
                    break
    return out


def rule_N3(src, lo, hi, enabled):
    """if let P = E && C {A} [else {B}]  ->  match E { P if C => {A} _ => {B} }"""
    out = []
    if "N3" not in enabled:
        return out
    toks = code_toks(tokenize(src[lo:hi], lo))
    n = len(toks)
    i = 0
    while i < n:
        t = toks[i]
        if t.kind == "ident" and t.text == "if" and i + 1 < n and toks[i + 1].text == "let":
            # find `=` at depth 0, then `&&` at depth 0 before the `{`
            j = i + 2
            d = 0
            eq = amp = brace = None
            while j < n:
                x = toks[j].text
                if x in ("(", "["):
                    d += 1
                elif x in (")", "]"):
                    d -= 1
                elif d == 0 and x == "=" and eq is None:
                    eq = j
                elif d == 0 and x == "&&" and eq is not None and amp is None:
                    amp = j
                elif d == 0 and x == "{":
                    # struct-literal braces in E are not supported: treat first `{` as the block
                    brace = j
                    break
                j += 1
            if eq is not None and amp is not None and brace is not None:
                bc = match_close(toks, brace)
                pat = src[toks[i + 2].start:toks[eq].start].strip()
                expr = src[toks[eq].end:toks[amp].start].strip()
                cond = src[toks[amp].end:toks[brace].start].strip()
                has_else = bc + 1 < n and toks[bc + 1].text == "else"
                if "let " in cond:
                    # `if let P1 = E1 && let P2 = E2 [&& let ..] { A }` (no else, every `&&` at depth 0 starts another `let`):
                    # -> `if let P1 = E1 { if let P2 = E2 { A } }` by point edits. Anything else is left as written: unless
                    # rule P cuts it away the file does not compile -> UNDECIDED
                    amps, d2 = [], 0
                    for q in range(i + 2, brace):
                        x = toks[q].text
                        if x in ("(", "["):
                            d2 += 1
                        elif x in (")", "]"):
                            d2 -= 1
                        elif d2 == 0 and x == "&&":
                            amps.append(q)
                    if not has_else and amps and all(toks[q + 1].text == "let" for q in amps) and "||" not in src[toks[i].start:toks[brace].start]:
                        for q in amps:
                            out.append(("N3", toks[q].start, toks[q].end, "{ if"))
                        out.append(("N3", toks[bc].end, toks[bc].end, " }" * len(amps)))
                        i = brace + 1
                        continue
                    i += 1
                    continue
                out.append(("N3", toks[i].start, toks[brace].start, "match %s { %s if %s => " % (expr, pat, cond)))
                if has_else:
                    if toks[bc + 2].text != "{":
                        raise VxError("N3: else-if after let-chain unsupported")
                    ec = match_close(toks, bc + 2)
                    out.append(("N3", toks[bc + 1].start, toks[bc + 1].end, "_ =>"))
                    out.append(("N3", toks[ec].end, toks[ec].end, " }"))
                else:
                    out.append(("N3", toks[bc].end, toks[bc].end, " _ => {} }"))
                i = brace + 1
                continue
        elif t.kind == "ident" and t.text == "if" and i + 1 < n and toks[i + 1].text != "let":
            # `if C && let P = E { A }` (no else)  ->  `if C { if let P = E { A } }`  (&& evaluates left to right, short-circuit)
            j = i + 1
            d = 0
            amp = brace = None
            while j < n:
                x = toks[j].text
                if x in ("(", "["):
                    d += 1
                elif x in (")", "]"):
                    d -= 1
                elif d == 0 and x == "&&" and j + 1 < n and toks[j + 1].text == "let" and amp is None:
                    amp = j
                elif d == 0 and x == "{":
                    brace = j
                    break
                elif d == 0 and x == ";":
                    break
                j += 1
            if amp is not None and brace is not None:
                bc = match_close(toks, brace)
                rest = src[toks[amp + 1].start:toks[brace].start]
                has_else = bc + 1 < n and toks[bc + 1].text == "else"
                if not has_else and "&&" not in rest and "||" not in src[toks[i + 1].start:toks[amp].start]:
                    # point edits only (the `&&` token and one closing brace), so that edits of other rules inside C and E survive
                    out.append(("N3", toks[amp].start, toks[amp].end, "{ if"))
                    out.append(("N3", toks[bc].end, toks[bc].end, " }"))
                    i = brace + 1
                    continue
        i += 1
    return out


def _recv_start(toks, dot_i):
    """index of the first token of the postfix-expression receiver that ends right before toks[dot_i] (a `.`)"""
    k = dot_i - 1
    while k >= 0:
        t = toks[k]
        if t.text in (")", "]"):
            d = 0
            q = k
            while q >= 0:
                if toks[q].text in (")", "]"):
                    d += 1
                elif toks[q].text in ("(", "["):
                    d -= 1
                    if d == 0:
                        break
                q -= 1
            k = q - 1
            # a call: the callee path precedes
            continue
        if t.kind in ("ident", "num"):
            if k - 1 >= 0 and toks[k - 1].text in (".", "::"):
                k -= 2
                continue
            return k
        if t.text == "?":
            k -= 1
            continue
        break
    return k + 1


def rule_N4(src, lo, hi, enabled):
    """E.map_or(D, |p| BODY) -> (match E { Some(p) => BODY, None => D })   (definition of Option::map_or;
    D must be a literal / tuple of literals so that eager vs lazy evaluation cannot differ)"""
    out = []
    if "N4" not in enabled:
        return out
    toks = code_toks(tokenize(src[lo:hi], lo))
    n = len(toks)
    for i, t in enumerate(toks):
        if t.kind == "ident" and t.text == "map_or" and i > 0 and toks[i - 1].text == "." and i + 1 < n and toks[i + 1].text == "(":
            c = match_close(toks, i + 1)
            # split args at top-level comma
            j = i + 2
            d = 0
            comma = None
            while j < c:
                x = toks[j].text
                if x in OPEN:
                    j = match_close(toks, j)
                elif x == "," and comma is None:
                    comma = j
                    break
                j += 1
            if comma is None or toks[comma + 1].text != "|":
                raise VxError("N4: unsupported map_or form")
            default = src[toks[i + 2].start:toks[comma].start].strip()
            if not re.fullmatch(r"[\(\)0-9a-zA-Z_, ]*", default) or re.search(r"[a-zA-Z_]\w*\s*\(", default):
                raise VxError("N4: map_or default is not a literal: %r" % default)
            p2 = comma + 2
            while toks[p2].text != "|":
                p2 += 1
            pat = src[toks[comma + 2].start:toks[p2].start].strip()
            body_end = c - 1
            if toks[body_end].text == ",":
                body_end -= 1
            body = src[toks[p2 + 1].start:toks[body_end].end]
            rs = _recv_start(toks, i - 1)
            recv = src[toks[rs].start:toks[i - 1].start]
            out.append(("N4", toks[rs].start, toks[c].end, "(match %s { Some(%s) => %s, None => %s })" % (recv, pat, body, default)))
    return out


def rule_N5(src, lo, hi, enabled):
    """E.map(|p| BODY).unwrap_or(LIT) -> (match E { Some(p) => BODY, None => LIT })
    (definitions of Option::map and Option::unwrap_or; LIT must be a literal)"""
    out = []
    if "N5" not in enabled:
        return out
    toks = code_toks(tokenize(src[lo:hi], lo))
    n = len(toks)
    for i, t in enumerate(toks):
        if t.kind == "ident" and t.text == "map" and i > 0 and toks[i - 1].text == "." and i + 2 < n and toks[i + 1].text == "(" \
                and toks[i + 2].text == "|":
            c = match_close(toks, i + 1)
            if not (c + 3 < n and toks[c + 1].text == "." and toks[c + 2].text == "unwrap_or" and toks[c + 3].text == "("):
                continue
            c2 = match_close(toks, c + 3)
            default = src[toks[c + 3].end:toks[c2].start].strip()
            if not re.fullmatch(r"[0-9a-zA-Z_]+", default):
                raise VxError("N5: unwrap_or default is not a literal: %r" % default)
            p2 = i + 3
            while toks[p2].text != "|":
                p2 += 1
            pat = src[toks[i + 3].start:toks[p2].start].strip()
            body_end = c - 1
            if toks[body_end].text == ",":
                body_end -= 1
            body = src[toks[p2 + 1].start:toks[body_end].end]
            rs = _recv_start(toks, i - 1)
            recv = src[toks[rs].start:toks[i - 1].start].strip()
            out.append(("N5", toks[rs].start, toks[c2].end, "(match %s { Some(%s) => %s, None => %s })" % (recv, pat, body, default)))
    return out


def _closure_parts(toks, src, open_i):
    """toks[open_i] is `(` of a call whose single argument is a closure `|PAT| BODY`; returns (pat, body, close_i)"""
    c = match_close(toks, open_i)
    if toks[open_i + 1].text != "|":
        raise VxError("N6: call argument is not a closure")
    p2 = open_i + 2
    while toks[p2].text != "|":
        p2 += 1
    pat = src[toks[open_i + 1].end:toks[p2].start].strip()
    be = c - 1
    if toks[be].text == ",":
        be -= 1
    body = src[toks[p2 + 1].start:toks[be].end]
    return pat, body, c


def _bind(pat, item, by_ref):
    """let-bindings equivalent to matching closure parameter pattern `pat` against `item`
    (by_ref: the closure receives `&item`, as Iterator::filter's predicate does)"""
    pat = pat.strip()
    amp = pat.startswith("&")
    if amp:
        pat = pat[1:].strip()
    if re.fullmatch(r"[a-z_][A-Za-z0-9_]*", pat):
        if pat == "_":
            return ""
        if by_ref and not amp:
            return "let %s = &%s; " % (pat, item)
        if (by_ref and amp) or (not by_ref and not amp):
            return "let %s = %s; " % (pat, item)
        return "let %s = *%s; " % (pat, item)
    m = re.fullmatch(r"\((.*)\)", pat)
    if not m:
        raise VxError("N6: unsupported closure pattern %r" % pat)
    outs = []
    for idx, comp in enumerate(_split_top_commas(m.group(1))):
        camp = comp.startswith("&")
        name = comp[1:].strip() if camp else comp
        if name == "_":
            continue
        comp_expr = "%s.%d" % (item, idx)
        mt = re.fullmatch(r"\(([^()]*)\)", name)
        if mt and not camp:
            # nested tuple component `(a, _)`: matched through whatever the component is (value or reference); the
            # bindings are taken by reference (match ergonomics for a reference component; for an owned component a
            # borrow instead of a move, which at worst fails to type-check -> UNDECIDED)
            for jdx, sub in enumerate([x.strip() for x in mt.group(1).split(",") if x.strip()]):
                if sub == "_":
                    continue
                if not re.fullmatch(r"[a-z_][A-Za-z0-9_]*", sub):
                    raise VxError("N6: unsupported closure pattern %r" % pat)
                outs.append("let %s = &(%s).%d; " % (sub, comp_expr, jdx))
            continue
        if not re.fullmatch(r"[a-z_][A-Za-z0-9_]*", name):
            raise VxError("N6: unsupported closure pattern %r" % pat)
        # matching a tuple pattern through a reference binds components by reference
        refd = by_ref and not amp
        if refd and not camp:
            outs.append("let %s = &%s; " % (name, comp_expr))
        elif (refd and camp) or (not refd and not camp):
            outs.append("let %s = %s; " % (name, comp_expr))
        else:
            outs.append("let %s = *%s; " % (name, comp_expr))
    return "".join(outs)


def desugar_iter_chains(text, log, relfile, line):
    """Rule N6 (innermost first, repeated to a fixpoint):
         X.iter().any(|p| B)                          -> { let mut __aK = false; for __iK in X.iter() { let p = __iK; if B { __aK = true; } } __aK }
         X.iter().filter(|p| F).map(|q| E).collect()  -> { let mut __cK = Vec::new(); for __iK in X.iter() { <p := &__iK> if F { <q := __iK> __cK.push(E); } } __cK }
       These are the definitions of Iterator::any / filter / map / collect::<Vec<_>> for side-effect-free
       closures (checked syntactically: no assignment, push, insert, send, await inside the closures)."""
    k = 0
    for _round in range(50):
        toks = code_toks(tokenize(text))
        n = len(toks)
        cands = []
        for i, t in enumerate(toks):
            if t.kind != "ident" or i < 4 or toks[i - 1].text != ".":
                continue
            # ... . iter ( ) . NAME (
            if not (toks[i - 2].text == ")" and toks[i - 3].text == "(" and toks[i - 4].text == "iter" and toks[i - 5].text == "."):
                continue
            if i + 1 >= n or toks[i + 1].text != "(":
                continue
            rs = _recv_start(toks, i - 5)
            if t.text in ("any", "all", "position"):
                pat, body, c = _closure_parts(toks, text, i + 1)
                cands.append((t.text, toks[rs].start, toks[c].end, text[toks[rs].start:toks[i - 5].start], pat, body, None, None))
            elif t.text == "filter":
                pat, body, c = _closure_parts(toks, text, i + 1)
                if c + 3 < n and toks[c + 1].text == "." and toks[c + 2].text == "map" and toks[c + 3].text == "(":
                    pat2, body2, c2 = _closure_parts(toks, text, c + 3)
                    if c2 + 4 < n and toks[c2 + 1].text == "." and toks[c2 + 2].text == "collect" and toks[c2 + 3].text == "(" and toks[c2 + 4].text == ")":
                        cands.append(("fmc", toks[rs].start, toks[c2 + 4].end, text[toks[rs].start:toks[i - 5].start], pat, body, pat2, body2))
        if not cands:
            return text
        # innermost: a candidate containing no other candidate
        cands.sort(key=lambda c: c[2] - c[1])
        kind, s0, e0, recv, pat, body, pat2, body2 = cands[0]
        if _round == 0:
            # side-effect check on the ORIGINAL closure bodies (later rounds see generated temporaries)
            for cnd in cands:
                for b in (cnd[5], cnd[7] or ""):
                    if SIDE_EFFECT_RE.search(b) or re.search(r"[^=!<>]=[^=>]", b.replace("==", "")):
                        raise VxError("N6: closure body may have side effects: %r" % b[:80])
        recv = recv.strip()
        if kind == "position":
            repl = "{\nlet mut __p%d: Option<usize> = None;\nlet mut __n%d: usize = 0;\nfor __i%d in %s.iter() {\n%s\nif __p%d.is_none() && %s {\n__p%d = Some(__n%d);\n}\n__n%d += 1;\n}\n__p%d\n}" % (
                k, k, k, recv, _bind(pat, "__i%d" % k, False), k, body, k, k, k, k)
        elif kind == "all":
            # definition of Iterator::all for a side-effect-free predicate (no short-circuit needed: the result is the same)
            repl = "{\nlet mut __a%d = true;\nfor __i%d in %s.iter() {\n%s\nif !(%s) {\n__a%d = false;\n}\n}\n__a%d\n}" % (
                k, k, recv, _bind(pat, "__i%d" % k, False), body, k, k)
        elif kind == "any":
            repl = "{\nlet mut __a%d = false;\nfor __i%d in %s.iter() {\n%s\nif %s {\n__a%d = true;\n}\n}\n__a%d\n}" % (
                k, k, recv, _bind(pat, "__i%d" % k, False), body, k, k)
        else:
            repl = "{\nlet mut __c%d = Vec::new();\nfor __i%d in %s.iter() {\n%s\nif %s {\n%s\n__c%d.push(%s);\n}\n}\n__c%d\n}" % (
                k, k, recv, _bind(pat, "__i%d" % k, True), body, _bind(pat2, "__i%d" % k, False), k, body2, k)
        log.append(dict(rule="N6", file=relfile, line=line, before=re.sub(r"\s+", " ", text[s0:e0])[:160], after=repl[:160]))
        text = text[:s0] + repl + text[e0:]
        k += 1
    raise VxError("N6: did not reach a fixpoint")


def _strip_block(body):
    """`{ EXPR }` -> `EXPR` when the block holds one expression and no statement"""
    b = body.strip()
    if b.startswith("{") and b.endswith("}"):
        toks = code_toks(tokenize(b))
        if toks and match_close(toks, 0) == len(toks) - 1 and not any(t.text == ";" for t in toks):
            return b[1:-1].strip()
    return b


def _whole_call(expr, head):
    """expr == `head(INNER)` with the parentheses spanning the whole expression -> INNER, else None"""
    e = expr.strip()
    if not e.startswith(head + "("):
        return None
    toks = code_toks(tokenize(e))
    hl = len(code_toks(tokenize(head)))
    if match_close(toks, hl) != len(toks) - 1:
        return None
    return e[toks[hl].end:toks[-1].start].strip()


def _split_top_commas(inner):
    toks = code_toks(tokenize(inner))
    parts, d, last = [], 0, 0
    for t in toks:
        if t.text in ("(", "[", "{"):
            d += 1
        elif t.text in (")", "]", "}"):
            d -= 1
        elif t.text == "," and d == 0:
            parts.append(inner[last:t.start].strip())
            last = t.end
    tail = inner[last:].strip()
    if tail:
        parts.append(tail)
    return parts


def desugar_collect_chains(text, log, relfile, line):
    """Rule N10 (opt-in): `SRC ADAPT .collect()` becomes an explicit loop, where
         SRC   = X.iter() | X.into_iter() | X.iter().zip(Y)        (zip -> `vx_zip(X, Y)`, a stub carrying Iterator::zip's contract)
                 optionally followed by .enumerate() (a counter) and one .filter(|p| F) (side-effect free)
         ADAPT = .map(|p| E) | .filter_map(|p| O.map(|q| E))
       and the collection is chosen from the syntax: a `let NAME: ..HashMap<..> = CHAIN;` collects pairs with insert
       (later pairs overwrite earlier ones, as FromIterator for HashMap does); an element `Ok(E)` with no other
       variant collects into `Ok(vec)`; otherwise a Vec in iteration order.  A wrong guess does not type-check -> UNDECIDED."""
    k = 100
    for _round in range(50):
        toks = code_toks(tokenize(text))
        n = len(toks)
        cand = None
        for i, t in enumerate(toks):
            if not (t.kind == "ident" and t.text in ("iter", "into_iter") and i >= 2 and toks[i - 1].text == "."
                    and i + 2 < n and toks[i + 1].text == "(" and toks[i + 2].text == ")"):
                continue
            j = i + 3
            zipped = None
            if j + 2 < n and toks[j].text == "." and toks[j + 1].text == "zip" and toks[j + 2].text == "(":
                zc = match_close(toks, j + 2)
                zipped = text[toks[j + 2].end:toks[zc].start].strip()
                j = zc + 1
            enum = False
            if j + 3 < n and [x.text for x in toks[j:j + 4]] == [".", "enumerate", "(", ")"]:
                enum = True
                j += 4
            filt = None
            if j + 3 < n and toks[j].text == "." and toks[j + 1].text == "filter" and toks[j + 2].text == "(" and toks[j + 3].text == "|":
                fpat, fbody, fc = _closure_parts(toks, text, j + 2)
                if SIDE_EFFECT_RE.search(fbody):
                    continue
                filt = (fpat, fbody)
                j = fc + 1
            if not (j + 2 < n and toks[j].text == "." and toks[j + 1].text in ("map", "filter_map") and toks[j + 2].text == "("):
                continue
            kind = toks[j + 1].text
            if toks[j + 3].text != "|":
                continue
            pat, body, c = _closure_parts(toks, text, j + 2)
            if not (c + 2 < n and toks[c + 1].text == "." and toks[c + 2].text == "collect"):
                continue
            e = c + 3
            if toks[e].text == "::":
                while e < n and toks[e].text != "(":
                    e += 1
            if not (e + 1 < n and toks[e].text == "(" and toks[e + 1].text == ")"):
                continue
            rs = _recv_start(toks, i - 1)
            cand = (rs, e + 1, i, kind, zipped, pat, body, enum, filt)
            break
        if cand is None:
            return text
        rs, ce, ii, kind, zipped, pat, body, enum, filt = cand
        # No side-effect restriction here (unlike N6): map / filter_map followed by collect() call the closure exactly
        # once per element, in order, with no short-circuit (the Ok(..) form has no Err element), which is what the loop does.
        recv = text[toks[rs].start:toks[ii - 1].start].strip()
        by_iter = toks[ii].text == "iter"
        # statement context: `let NAME: TYPE = CHAIN`
        b0 = rs - 1
        while b0 >= 0 and toks[b0].text not in (";", "{", "}"):
            b0 -= 1
        # the chain may be the tail of a block that initialises a `let`: `let x: T = { ..; CHAIN };` - look one level out
        ctx = text[toks[b0].end if b0 >= 0 else 0:toks[rs].start]
        q, d = rs - 1, 0
        while q >= 0:
            if toks[q].text in ("}", ")", "]"):
                d += 1
            elif toks[q].text in ("{", "(", "["):
                if d == 0:
                    break
                d -= 1
            q -= 1
        if q > 0 and toks[q].text == "{" and toks[q - 1].text == "=":
            b1 = q - 1
            while b1 >= 0 and toks[b1].text not in (";", "{", "}"):
                b1 -= 1
            ctx = text[toks[b1].end if b1 >= 0 else 0:toks[q].start] + " " + ctx
        to_map = bool(re.search(r"\blet\b[^=]*:\s*[^=]*HashMap\s*<", ctx))
        to_set = bool(re.search(r"\blet\b[^=]*:\s*[^=]*HashSet\s*<", ctx))
        item = "__i%d" % k
        coll = "__c%d" % k
        elem = _strip_block(body)
        # what the adapters see: the element, or (position, element) after .enumerate()
        seen = "__t%d" % k if enum else item
        pre = _bind(pat, seen, False)
        opt_recv = None
        if kind == "filter_map":
            et = code_toks(tokenize(elem))
            # elem must be `O.map(|q| E)`
            m_i = None
            for x in range(len(et) - 2):
                if et[x].text == "." and et[x + 1].text == "map" and et[x + 2].text == "(" and match_close(et, x + 2) == len(et) - 1:
                    m_i = x
            if m_i is None:
                # any other Option-valued closure body: keep the Some payload
                opt_recv = "(%s)" % elem
                pat2, elem = "__v%d" % k, "__v%d" % k
            else:
                opt_recv = elem[:et[m_i].start].strip()
                pat2, elem2, _c2 = _closure_parts(et, elem, m_i + 2)
                elem = _strip_block(elem2)
        ok_inner = _whole_call(elem, "Ok") if not (to_map or to_set) else None
        if ok_inner is not None:
            elem = ok_inner
        if to_map:
            tup = _whole_call("T" + elem, "T") if elem.startswith("(") else None
            parts = _split_top_commas(tup) if tup is not None else []
            if len(parts) != 2:
                raise VxError("N10: HashMap collect needs a pair element, got %r" % elem[:80])
            put = "%s.insert(%s, %s);" % (coll, parts[0], parts[1])
            init = "let mut %s = HashMap::new();" % coll
        elif to_set:
            put = "%s.insert(%s);" % (coll, elem)
            init = "let mut %s = HashSet::new();" % coll
        else:
            put = "%s.push(%s);" % (coll, elem)
            init = "let mut %s = Vec::new();" % coll
        if opt_recv is not None:
            inner = "match %s { Some(%s) => { %s } None => {} }" % (opt_recv, pat2, put)
        else:
            inner = put
        if zipped is not None:
            src_it = "vx_zip(%s, %s)" % (recv, zipped)
        else:
            src_it = "%s.%s()" % (recv, "iter" if by_iter else "into_iter") if by_iter else recv
        fin = ("Ok(%s)" % coll) if ok_inner is not None else coll
        body_txt = "%s\n%s" % (pre, inner)
        if filt is not None:
            body_txt = "if { %s%s } {\n%s\n}" % (_bind(filt[0], seen, True), filt[1], body_txt)
        if enum:
            init += "\nlet mut __n%d: usize = 0;" % k
            body_txt = "let __t%d = (__n%d, %s);\n%s\n__n%d += 1;" % (k, k, item, body_txt, k)
        repl = "{\n%s\nfor %s in %s {\n%s\n}\n%s\n}" % (init, item, src_it, body_txt, fin)
        s0, e0 = toks[rs].start, toks[ce].end
        log.append(dict(rule="N10", file=relfile, line=line, before=re.sub(r"\s+", " ", text[s0:e0])[:200], after=re.sub(r"\s+", " ", repl)[:200]))
        text = text[:s0] + repl + text[e0:]
        k += 1
    raise VxError("N10: did not reach a fixpoint")


def desugar_and_then(text, log, relfile, line):
    """Rule N11 (opt-in, pre-pass, innermost first): `E.and_then(|p| B)` on an Option -> `(match E { Some(p) => B, None => None })`"""
    for _round in range(20):
        toks = code_toks(tokenize(text))
        n = len(toks)
        cand = None
        for i, t in enumerate(toks):
            if t.kind == "ident" and t.text == "and_then" and i > 0 and toks[i - 1].text == "." and i + 2 < n \
                    and toks[i + 1].text == "(" and toks[i + 2].text == "|":
                pat, body, c = _closure_parts(toks, text, i + 1)
                if "and_then" in body:
                    continue
                rs = _recv_start(toks, i - 1)
                cand = (rs, c, i, pat, body)
                break
        if cand is None:
            return text
        rs, c, i, pat, body = cand
        recv = text[toks[rs].start:toks[i - 1].start].strip()
        repl = "(match %s { Some(%s) => %s, None => None })" % (recv, pat, body)
        log.append(dict(rule="N11", file=relfile, line=line, before=re.sub(r"\s+", " ", text[toks[rs].start:toks[c].end])[:160], after=repl[:160]))
        text = text[:toks[rs].start] + repl + text[toks[c].end:]
    raise VxError("N11: did not reach a fixpoint")


def desugar_rev_find_map(text, log, relfile, line):
    """Rule N12 (opt-in, pre-pass): `(A..B).rev().find_map(|p| BODY)` ->
       `{ let mut __kN = B; let mut __rN = None; while __kN > A && __rN.is_none() { __kN -= 1; let p = __kN; __rN = BODY; } __rN }`
       (definition of Rev<Range>::find_map: the first Some met going from B-1 down to A; BODY side-effect free)"""
    k = 200
    for _round in range(10):
        toks = code_toks(tokenize(text))
        n = len(toks)
        cand = None
        for i, t in enumerate(toks):
            # ( A .. B ) . rev ( ) . find_map ( |p| BODY )
            if t.kind == "ident" and t.text == "find_map" and i >= 6 and [x.text for x in toks[i - 5:i]] == [".", "rev", "(", ")", "."] \
                    and toks[i - 6].text == ")" and i + 2 < n and toks[i + 1].text == "(" and toks[i + 2].text == "|":
                # find the matching `(` of the range
                q, d = i - 6, 0
                while q >= 0:
                    if toks[q].text == ")":
                        d += 1
                    elif toks[q].text == "(":
                        d -= 1
                        if d == 0:
                            break
                    q -= 1
                inner = text[toks[q].end:toks[i - 6].start]
                if ".." not in inner or "..=" in inner:
                    continue
                a, b = [x.strip() for x in inner.split("..", 1)]
                pat, body, c = _closure_parts(toks, text, i + 1)
                if SIDE_EFFECT_RE.search(body):
                    raise VxError("N12: closure body may have side effects")
                cand = (toks[q].start, toks[c].end, a, b, pat, body)
                break
        if cand is None:
            return text
        s0, e0, a, b, pat, body = cand
        repl = "{\nlet mut __k%d = %s;\nlet mut __r%d = None;\nwhile __k%d > %s && __r%d.is_none() {\n__k%d -= 1;\nlet %s = __k%d;\n__r%d = %s;\n}\n__r%d\n}" % (
            k, b, k, k, a, k, k, pat, k, k, body, k)
        log.append(dict(rule="N12", file=relfile, line=line, before=re.sub(r"\s+", " ", text[s0:e0])[:160], after=re.sub(r"\s+", " ", repl)[:160]))
        text = text[:s0] + repl + text[e0:]
        k += 1
    raise VxError("N12: did not reach a fixpoint")

def desugar_remove_if_mut(text, log, relfile, line):
    """Rule N13 (opt-in, pre-pass): `M.remove_if_mut(K, |_, p| { BODY });` -> take / run BODY on the owned value / put back unless BODY says remove"""
    k = 300
    for _round in range(10):
        toks = code_toks(tokenize(text))
        n = len(toks)
        cand = None
        for i, t in enumerate(toks):
            if t.kind == "ident" and t.text == "remove_if_mut" and i > 0 and toks[i - 1].text == "." and i + 1 < n and toks[i + 1].text == "(":
                c = match_close(toks, i + 1)
                # first argument up to the top-level comma
                q, d = i + 2, 0
                while q < c:
                    if toks[q].text in ("(", "[", "{"):
                        d += 1
                    elif toks[q].text in (")", "]", "}"):
                        d -= 1
                    elif toks[q].text == "," and d == 0:
                        break
                    q += 1
                if q >= c or toks[q + 1].text != "|":
                    raise VxError("N13: remove_if_mut's second argument is not a closure")
                key = text[toks[i + 2].start:toks[q].start].strip()
                p2 = q + 2
                while toks[p2].text != "|":
                    p2 += 1
                params = [x.strip() for x in text[toks[q + 1].end:toks[p2].start].split(",")]
                if len(params) != 2 or params[0] != "_" or not re.fullmatch(r"[a-z_][A-Za-z0-9_]*", params[1]) or params[1] == "_":
                    raise VxError("N13: unsupported closure parameters %r" % (params,))
                be = c - 1
                if toks[be].text == ",":
                    be -= 1
                body = text[toks[p2 + 1].start:toks[be].end]
                if c + 1 >= n or toks[c + 1].text != ";":
                    raise VxError("N13: remove_if_mut whose result is used")
                rs = _recv_start(toks, i - 1)
                cand = (toks[rs].start, toks[c + 1].end, text[toks[rs].start:toks[i - 1].start].strip(), key, params[1], body)
                break
        if cand is None:
            return text
        s0, e0, recv, key, pv, body = cand
        repl = "match %s.vx_take(%s) {\nSome(mut %s) => {\nlet __rm%d = %s;\nif !__rm%d { %s.vx_put(%s, %s); }\n}\nNone => {}\n}" % (
            recv, key, pv, k, body, k, recv, key, pv)
        log.append(dict(rule="N13", file=relfile, line=line, before=re.sub(r"\s+", " ", text[s0:e0])[:160], after=re.sub(r"\s+", " ", repl)[:160]))
        text = text[:s0] + repl + text[e0:]
        k += 1
    raise VxError("N13: did not reach a fixpoint")


def rule_N7(src, lo, hi, enabled):
    """E.is_some_and(|p| B) -> (match E { Some(p) => B, None => false })
       E.is_none_or(|p| B)  -> (match E { Some(p) => B, None => true })   (definitions of the std methods)"""
    out = []
    if "N7" not in enabled:
        return out
    toks = code_toks(tokenize(src[lo:hi], lo))
    n = len(toks)
    for i, t in enumerate(toks):
        if t.kind == "ident" and t.text in ("is_some_and", "is_none_or") and i > 0 and toks[i - 1].text == "." and i + 2 < n \
                and toks[i + 1].text == "(" and toks[i + 2].text == "|":
            pat, body, c = _closure_parts(toks, src, i + 1)
            rs = _recv_start(toks, i - 1)
            recv = src[toks[rs].start:toks[i - 1].start].strip()
            if "\n" in recv or "?" in recv:
                # receiver spans lines / uses `?`: keep it as an expression statement prefix
                pass
            dflt = "false" if t.text == "is_some_and" else "true"
            out.append(("N7", toks[rs].start, toks[c].end, "(match %s { Some(%s) => %s, None => %s })" % (recv, pat, body, dflt)))
    return out


def rule_N8(src, lo, hi, enabled):
    """E.map(|p| B)  (Option::map, not followed by .unwrap_or) -> (match E { Some(p) => Some(B), None => None })"""
    out = []
    if "N8" not in enabled:
        return out
    toks = code_toks(tokenize(src[lo:hi], lo))
    n = len(toks)
    for i, t in enumerate(toks):
        if t.kind == "ident" and t.text == "map" and i > 0 and toks[i - 1].text == "." and i + 2 < n and toks[i + 1].text == "(" \
                and toks[i + 2].text == "|":
            c = match_close(toks, i + 1)
            if c + 2 < n and toks[c + 1].text == "." and toks[c + 2].text in ("unwrap_or", "collect", "map", "filter", "sum", "any", "all"):
                continue
            if toks[i - 2].text == ")" and i >= 4 and toks[i - 4].text in ("iter", "into_iter", "range", "drain", "keys", "values"):
                continue
            pat, body, c = _closure_parts(toks, src, i + 1)
            rs = _recv_start(toks, i - 1)
            recv = src[toks[rs].start:toks[i - 1].start].strip()
            out.append(("N8", toks[rs].start, toks[c].end, "(match %s { Some(%s) => Some(%s), None => None })" % (recv, pat, body)))
    return out


def rule_N9(src, lo, hi, enabled):
    """for (I, X) in E.into_iter().enumerate() { B }  ->  { let mut I: usize = 0; for X in E { B I += 1; } }
    for (I, X) in E.into_iter().filter(|p| F).enumerate() { B } -> { let mut I = 0; for X in E { if { let p = &X; F } { B I += 1; } } }
    (definitions of Iterator::enumerate / filter; B must not contain `continue`)"""
    out = []
    if "N9" not in enabled:
        return out
    toks = code_toks(tokenize(src[lo:hi], lo))
    n = len(toks)
    for i, t in enumerate(toks):
        if t.kind == "ident" and t.text == "for" and i + 6 < n and toks[i + 1].text == "(" and toks[i + 3].text == "," and toks[i + 5].text == ")" \
                and toks[i + 6].text == "in":
            iv, xv = toks[i + 2].text, toks[i + 4].text
            # find body `{` and check the iterable ends with .into_iter().enumerate()
            j = i + 7
            d = 0
            while j < n:
                x = toks[j].text
                if x in ("(", "["):
                    d += 1
                elif x in (")", "]"):
                    d -= 1
                elif x == "{" and d == 0:
                    break
                j += 1
            if [x.text for x in toks[j - 4:j]] != [".", "enumerate", "(", ")"]:
                continue
            e_end = j - 4            # index just past the expression in front of `.enumerate()`
            filt = None
            if toks[e_end - 1].text == ")":
                # `.filter(|p| F)` in front of enumerate: enumerate then counts only the items that pass
                q = e_end - 1
                d2 = 0
                while q > i:
                    if toks[q].text == ")":
                        d2 += 1
                    elif toks[q].text == "(":
                        d2 -= 1
                        if d2 == 0:
                            break
                    q -= 1
                if toks[q - 1].text == "filter" and toks[q - 2].text == ".":
                    fpat, fbody, _c = _closure_parts(toks, src, q)
                    if SIDE_EFFECT_RE.search(fbody):
                        raise VxError("N9: filter predicate may have side effects")
                    filt = (fpat, fbody)
                    e_end = q - 2
            tail4 = [x.text for x in toks[e_end - 4:e_end]]
            if tail4 != [".", "into_iter", "(", ")"] and tail4 != [".", "iter", "(", ")"]:
                continue
            keep_iter = tail4[1] == "iter"      # `E.iter().enumerate()`: the plain loop runs over `E.iter()`
            bc = match_close(toks, j)
            body_txt = src[toks[j].end:toks[bc].start]
            if re.search(r"\bcontinue\b", body_txt):
                raise VxError("N9: enumerate loop body contains `continue`")
            expr = src[toks[i + 7].start:(toks[e_end - 1].end if keep_iter else toks[e_end - 4].start)].strip()
            if filt is None:
                out.append(("N9", toks[i].start, toks[j].start, "{ let mut %s: usize = 0; for %s in %s " % (iv, xv, expr)))
                out.append(("N9", toks[bc].start, toks[bc].end, "%s += 1; } }" % iv))
            else:
                out.append(("N9", toks[i].start, toks[j].end, "{ let mut %s: usize = 0; for %s in %s { if { %s%s } {" % (
                    iv, xv, expr, _bind(filt[0], xv, True), filt[1])))
                out.append(("N9", toks[bc].start, toks[bc].end, "%s += 1; } } }" % iv))
    return out


def rule_A(src, lo, hi, keep_re):
    """Arm focus on the outermost `match` of the function body whose arms are event variants:
    every arm whose pattern does not match keep_re gets the body `{ return vx_other_arm(self) }`."""
    out = []
    toks = code_toks(tokenize(src[lo:hi], lo))
    n = len(toks)
    # first `match` at function-body depth 1
    depth = 0
    mi = None
    for i, t in enumerate(toks):
        if t.text == "{" and t.kind == "punct":
            depth += 1
        elif t.text == "}" and t.kind == "punct":
            depth -= 1
        elif t.kind == "ident" and t.text == "match" and depth == 1:
            mi = i
            break
    if mi is None:
        raise VxError("A: no top-level match found")
    j = mi + 1
    d = 0
    while j < n:
        if toks[j].text in ("(", "["):
            d += 1
        elif toks[j].text in (")", "]"):
            d -= 1
        elif toks[j].text == "{" and d == 0:
            break
        j += 1
    mclose = match_close(toks, j)
    p = j + 1
    kept = dropped = 0
    dropped_names = []
    while p < mclose:
        # pattern: tokens until `=>` at depth 0
        q = p
        d = 0
        while q < mclose:
            x = toks[q].text
            if x in OPEN:
                d += 1
            elif x in CLOSE:
                d -= 1
            elif x == "=>" and d == 0:
                break
            q += 1
        pat = src[toks[p].start:toks[q].start].strip()
        # arm body
        b = q + 1
        if toks[b].text == "{":
            be = match_close(toks, b)
            end_tok = be
            nxt = be + 1
            if nxt < mclose and toks[nxt].text == ",":
                nxt += 1
        else:
            e = b
            d = 0
            while e < mclose:
                x = toks[e].text
                if x in OPEN:
                    e = match_close(toks, e)
                elif x == "," and d == 0:
                    break
                e += 1
            end_tok = e - 1
            nxt = e + 1
        if re.search(keep_re, pat):
            kept += 1
        else:
            dropped += 1
            dropped_names.append(re.sub(r"\s+", " ", pat)[:60])
            out.append(("A", toks[b].start, toks[end_tok].end, "{ return self.vx_other_arm(); }"))
        p = nxt
    if kept == 0:
        raise VxError("anchor lost: A: no arm matches %r" % keep_re)
    return out, dropped_names


def apply_edits(src, lo, hi, edits):
    """edits: (rule, start, end, repl) absolute offsets within [lo,hi]. Returns new text for src[lo:hi]
    and a list mapping output offsets->source offsets (piecewise)."""
    edits = sorted(edits, key=lambda e: (e[1], e[2]))
    out = []
    pos = lo
    for rule, s, e, repl in edits:
        if s < pos:
            # overlapping edits (e.g. D3 inside a dropped D1 statement): skip inner one
            continue
        out.append(src[pos:s])
        out.append(repl)
        pos = e
    out.append(src[pos:hi])
    return "".join(out)


# --------------------------------------------------------------------------------------
# Signature handling
# --------------------------------------------------------------------------------------
def clean_signature(sig, enabled, log, relfile, line):
    """sig: text from item start to just before the body `{`."""
    # drop comments and attributes
    toks = tokenize(sig)
    parts = []
    i = 0
    ct = [t for t in toks if t.kind != "comment"]
    # remove attributes
    out = []
    k = 0
    while k < len(ct):
        t = ct[k]
        if t.text == "#" and k + 1 < len(ct) and ct[k + 1].text == "[":
            c = match_close(ct, k + 1)
            log.append(dict(rule="ATTR", file=relfile, line=line, before=sig[t.start:ct[c].end][:120], after=""))
            k = c + 1
            continue
        out.append(t)
        k += 1
    # rebuild text with single spaces, preserving original spacing between tokens roughly
    text = ""
    prev_end = None
    for t in out:
        if prev_end is not None:
            gap = sig[prev_end:t.start]
            # gap may contain removed attrs/comments; normalise to the whitespace found
            ws = " " if (gap and (gap[0].isspace() or gap[-1].isspace())) else ""
            if "\n" in gap:
                ws = "\n    "
            text += ws
        text += t.text
        prev_end = t.end
    if "D3" in enabled:
        new = re.sub(r"\basync\s+fn\b", "fn", text)
        if new != text:
            log.append(dict(rule="D3", file=relfile, line=line, before="async fn", after="fn"))
        text = new
    return text


def name_return(sig_text, enabled, log, relfile, line):
    if "R1" not in enabled:
        return sig_text
    toks = code_toks(tokenize(sig_text))
    depth = 0
    arrow = None
    for i, t in enumerate(toks):
        if t.text in ("(", "[", "<") and t.kind == "punct":
            depth += 1
        elif t.text in (")", "]", ">") and t.kind == "punct":
            depth -= 1
        elif t.text == ">>" and t.kind == "punct":
            depth -= 2
        elif t.text == "->" and depth == 0:
            arrow = i
            break
    if arrow is None:
        return sig_text
    # type runs to `where` at depth 0 or end
    end = len(sig_text)
    d = 0
    for t in toks[arrow + 1:]:
        if t.text in ("(", "[", "<"):
            d += 1
        elif t.text in (")", "]", ">"):
            d -= 1
        elif t.text == ">>":
            d -= 2
        elif t.kind == "ident" and t.text == "where" and d == 0:
            end = t.start
            break
    ty = sig_text[toks[arrow].end:end].strip()
    rest = sig_text[end:]
    log.append(dict(rule="R1", file=relfile, line=line, before="-> " + ty, after="-> (ret: %s)" % ty))
    return sig_text[:toks[arrow].start] + "-> (ret: " + ty + ") " + rest


# --------------------------------------------------------------------------------------
# Loop location (for invariants) in *rewritten* body text
# --------------------------------------------------------------------------------------
def loop_headers(body):
    """returns list of offsets of the `{` opening each loop body, in source order."""
    toks = code_toks(tokenize(body))
    res = []
    for i, t in enumerate(toks):
        if t.kind == "ident" and t.text in ("for", "while", "loop"):
            if t.text == "for" and i > 0 and toks[i - 1].text in ("impl", ">"):
                continue
            j = i + 1
            d = 0
            in_off = None
            while j < len(toks):
                x = toks[j].text
                if x in ("(", "["):
                    d += 1
                elif x in (")", "]"):
                    d -= 1
                elif x == "in" and d == 0 and t.text == "for" and in_off is None and toks[j].kind == "ident":
                    in_off = toks[j + 1].start
                elif x == "{" and d == 0:
                    res.append((toks[j].start, in_off))
                    break
                j += 1
    return res


# --------------------------------------------------------------------------------------
# vspec processing
# --------------------------------------------------------------------------------------
ALL_RULES = ["D1", "D2", "D3", "D5", "D6", "R1", "N1", "N2", "N3", "N4", "N5", "N6", "N7", "N8", "N9", "N10", "N11", "N12", "N13"]
KV_RE = re.compile(r'(\w+)=("([^"]*)"|\S+)')


def parse_kv(s):
    d = {}
    for m in KV_RE.finditer(s):
        d[m.group(1)] = m.group(3) if m.group(3) is not None else m.group(2)
    return d


def _split_map(t):
    if " => " in t:
        a, b = t.split(" => ", 1)
        return a, b
    if t.rstrip().endswith(" =>"):
        return t.rstrip()[:-3], ""
    raise VxError("bad map directive: %r" % t)


class Gen:
    def __init__(self, vspec_path, repo=REPO):
        self.vspec_path = vspec_path
        self.repo = repo
        self.out_lines = []          # generated text lines
        self.origin = []             # per generated line: dict(kind=..., ...)
        self.log = []                # rule applications
        self.functions = []          # functions under contract
        self.obligations = {}        # name -> dict(lines=[..], fn=..)
        self.unit = os.path.basename(vspec_path).rsplit(".", 1)[0]
        self.stubs = []              # external_body / assume_specification declared in vspec
        self._srcs = {}

    def src(self, rel):
        if rel not in self._srcs:
            p = os.path.join(self.repo, rel)
            if not os.path.exists(p):
                raise VxError("anchor lost: file %s missing" % rel)
            self._srcs[rel] = open(p).read()
        return self._srcs[rel]

    def emit(self, text, origin):
        for ln in text.split("\n"):
            self.out_lines.append(ln)
            self.origin.append(origin)

    def run(self):
        lines = open(self.vspec_path).read().split("\n")
        i = 0
        while i < len(lines):
            ln = lines[i]
            s = ln.strip()
            if s.startswith("//@unit"):
                self.unit = s.split(None, 1)[1].strip()
                i += 1
                continue
            if s.startswith("//@extract") or s.startswith("//@item"):
                j = i + 1
                block = []
                while j < len(lines) and lines[j].strip() != "//@end":
                    if not lines[j].strip().startswith("//@"):
                        raise VxError("%s:%d: non-directive line inside extract block" % (self.vspec_path, j + 1))
                    body = lines[j].strip()[3:]
                    block.append((j + 1, body[1:] if body.startswith(" ") else body))
                    j += 1
                if j >= len(lines):
                    raise VxError("%s:%d: missing //@end" % (self.vspec_path, i + 1))
                if s.startswith("//@extract"):
                    self.do_extract(parse_kv(s[len("//@extract"):]), block, i + 1)
                else:
                    self.do_item(parse_kv(s[len("//@item"):]), block, i + 1)
                i = j + 1
                continue
            m = re.match(r"\s*//@ob\s+\[([^\]]+)\]\s*$", ln)
            if m:
                # names the next spec line(s) (lemma ensures, proof fn) as an obligation
                self._pending_ob = m.group(1)
                i += 1
                continue
            origin = dict(kind="spec", line=i + 1)
            m2 = re.search(r"//@\[([^\]]+)\]\s*$", ln)
            if m2:
                name = m2.group(1)
                self.obligations.setdefault(name, dict(lines=[], fn=None, kind="spec"))
                self.obligations[name]["lines"].append(len(self.out_lines) + 1)
                origin = dict(kind="contract", name=name, line=i + 1)
            if "external_body" in ln or "assume_specification" in ln or re.search(r"\b(assume|admit)\s*\(", ln):
                desc = s
                if re.fullmatch(r"\s*#\[verifier::external_body\]\s*", ln):
                    # attribute on its own line: name what it is attached to
                    nxt = [x.strip() for x in lines[i + 1:i + 6] if x.strip() and not x.strip().startswith("//")]
                    if nxt:
                        desc = "#[verifier::external_body] " + nxt[0]
                self.stubs.append(dict(line=i + 1, text=desc))
            self.emit(ln, origin)
            i += 1
        return "\n".join(self.out_lines) + "\n"

    # ---- items -------------------------------------------------------------------
    def do_item(self, kv, block, vline):
        rel, kind, name = kv["file"], kv["kind"], kv["name"]
        src = self.src(rel)
        s, e = find_item(src, kind, name)
        text = src[s:e]
        # strip attributes, comments
        toks = tokenize(text)
        drop = []
        ct = code_toks(toks)
        k = 0
        while k < len(ct):
            t = ct[k]
            if t.text == "#" and k + 1 < len(ct) and ct[k + 1].text == "[":
                c = match_close(ct, k + 1)
                drop.append((t.start, ct[c].end))
                k = c + 1
                continue
            k += 1
        for t in toks:
            if t.kind == "comment":
                drop.append((t.start, t.end))
        drop.sort()
        out, pos = [], 0
        for a, b in drop:
            out.append(text[pos:a])
            pos = b
        out.append(text[pos:])
        text = "".join(out)
        text = "\n".join(l for l in text.split("\n") if l.strip())
        # restricted visibilities are meaningless in the single file
        text = re.sub(r"\bpub\s*\((?:super|crate|in [^)]*)\)", "pub", text)
        for vl, b in block:
            if b.startswith("map "):
                frm, to = _split_map(b[4:])
                new = re.sub(frm, to, text)
                self.log.append(dict(rule="D4", file=rel, line=line_of(src, s), before=frm, after=to, hits=len(re.findall(frm, text))))
                text = new
        if "as" in kv:
            text = re.sub(r"\b%s\b" % re.escape(name), kv["as"], text, count=1)
        derive = kv.get("derive")
        head = ("#[derive(%s)]\n" % derive) if derive else ""
        self.functions.append(dict(kind=kind, name=name, file=rel, line=line_of(src, s),
                                   sha256=hashlib.sha256(src[s:e].encode()).hexdigest()[:16]))
        self.emit(head + text, dict(kind="src", file=rel, line=line_of(src, s), item=name))

    # ---- functions ---------------------------------------------------------------
    def do_extract(self, kv, block, vline):
        rel, name = kv["file"], kv["fn"]
        src = self.src(rel)
        try:
            loc = find_fn(src, name, kv.get("impl"), int(kv.get("nth", "0")))
        except VxError:
            # Rust method resolution: a trait method the impl does not override is the trait's default body
            if "default_file" not in kv:
                raise
            self.log.append(dict(rule="T", file=rel, line=0, fn=name, before="%s has no `fn %s` (impl ~ %s)" % (rel, name, kv.get("impl")),
                                 after="trait default body from %s (%s)" % (kv["default_file"], kv.get("default_impl"))))
            rel = kv["default_file"]
            src = self.src(rel)
            loc = find_fn(src, name, kv.get("default_impl"), 0)
        enabled = set(ALL_RULES) - {"N8", "N10", "N11", "N12", "N13"}   # N8 (Option::map) and N10 (collect chains) are opt-in
        maps, sigmaps, arms, cut = [], [], None, None
        puremacros = []
        from_after = None
        requires, ensures = [], []
        loops = {}     # n -> dict(invariant=[(name,text)], decreases=[text], ensures=[])
        ats = []       # (regex, where, [lines])
        mode = None
        cur_loop = None
        cur_at = None
        for vl, b in block:
            bs = b.strip()
            if bs.startswith("map? "):
                frm, to = _split_map(bs[5:])
                maps.append((frm, to.rstrip(), True))
                mode = None
            elif bs.startswith("map "):
                frm, to = _split_map(bs[4:])
                maps.append((frm, to.rstrip(), False))
                mode = None
            elif bs.startswith("sigmap "):
                frm, to = _split_map(bs[7:])
                sigmaps.append((frm, to.rstrip()))
                mode = None
            elif bs.startswith("puremacro "):
                m = re.match(r"puremacro /(.*)/\s*$", bs)
                if not m:
                    raise VxError("%s:%d: bad puremacro-directive" % (self.vspec_path, vl))
                puremacros.append(m.group(1))
            elif bs.startswith("norule "):
                enabled.discard(bs.split()[1])
                mode = None
            elif bs.startswith("rule "):
                enabled.add(bs.split()[1])
                mode = None
            elif bs.startswith("arms "):
                arms = parse_kv(bs[5:])["keep"]
                mode = None
            elif bs.startswith("cut "):
                m = re.match(r"cut before=/(.*)/\s*$", bs)
                if not m:
                    raise VxError("%s:%d: bad cut-directive" % (self.vspec_path, vl))
                cut = m.group(1)
                mode = None
            elif bs.startswith("from "):
                m = re.match(r"from after=/(.*)/ havoc=(.*)$", bs)
                if not m:
                    raise VxError("%s:%d: bad from-directive" % (self.vspec_path, vl))
                from_after = (m.group(1), [h.strip() for h in m.group(2).split(";") if h.strip()])
                mode = None
            elif bs == "requires":
                mode = "requires"
            elif bs == "ensures":
                mode = "ensures"
            elif bs.startswith("loop "):
                cur_loop = int(bs.split()[1])
                loops[cur_loop] = dict(invariant=[], decreases=[], ensures=[], invariant_except_break=[],
                                       iter=parse_kv(bs).get("iter"))
                mode = "loop"
            elif bs in ("invariant", "decreases", "invariant_except_break") and cur_loop is not None and mode in ("loop", "linv", "ldec", "lens", "lieb"):
                mode = {"invariant": "linv", "decreases": "ldec", "invariant_except_break": "lieb"}[bs]
            elif bs == "loop_ensures" and cur_loop is not None:
                mode = "lens"
            elif bs.startswith("at "):
                m = re.match(r"at /(.*)/(?:#(\d+|\*))? (before|after_block|after)\s*$", bs)
                if not m:
                    raise VxError("%s:%d: bad at-directive" % (self.vspec_path, vl))
                cur_at = (m.group(1), m.group(3), [], (0 if m.group(2) == "*" else int(m.group(2))) if m.group(2) else None)
                ats.append(cur_at)
                mode = "at"
            elif bs == "":
                continue
            else:
                m = re.match(r"\[([^\]]+)\]\s*(.*)$", bs)
                nm, txt = (m.group(1), m.group(2)) if m else (None, bs)
                if nm is None and mode != "at":
                    m = re.search(r"\s*//@\[([^\]]+)\]\s*$", bs)
                    if m:
                        nm, txt = m.group(1), bs[:m.start()]
                if mode == "requires":
                    requires.append((nm, txt, vl))
                elif mode == "ensures":
                    ensures.append((nm, txt, vl))
                elif mode == "linv":
                    loops[cur_loop]["invariant"].append((nm, txt, vl))
                elif mode == "lieb":
                    loops[cur_loop]["invariant_except_break"].append((nm, txt, vl))
                elif mode == "ldec":
                    loops[cur_loop]["decreases"].append((nm, txt, vl))
                elif mode == "lens":
                    loops[cur_loop]["ensures"].append((nm, txt, vl))
                elif mode == "at":
                    cur_at[2].append(b)
                else:
                    raise VxError("%s:%d: unexpected line %r" % (self.vspec_path, vl, bs))

        fn_line = line_of(src, loc["fn_tok"])
        lo, hi = loc["body_open"], loc["body_close"]
        orig_fn_text = src[loc["start"]:hi]
        dropped_arms = []
        if arms:
            # arm focus first, so that the other rules never look at dropped arms
            a_edits, dropped_arms = rule_A(src, lo, hi, arms)
            new_body = apply_edits(src, lo, hi, a_edits)
            self.log.append(dict(rule="A", file=rel, line=fn_line, fn=name, before="%d match arms dropped: %s" % (len(dropped_arms), "; ".join(dropped_arms))[:300],
                                 after="{ return self.vx_other_arm(); }"))
            src = src[:lo] + new_body + src[hi:]
            hi = lo + len(new_body)
        if "N13" in enabled and ".remove_if_mut(" in src[lo:hi]:
            new_body = desugar_remove_if_mut(src[lo:hi], self.log, rel, fn_line)
            src = src[:lo] + new_body + src[hi:]
            hi = lo + len(new_body)
        if "N6" in enabled and re.search(r"\.iter\(\)\s*\.(any|all|filter|position)\(", src[lo:hi]):
            new_body = desugar_iter_chains(src[lo:hi], self.log, rel, fn_line)
            src = src[:lo] + new_body + src[hi:]
            hi = lo + len(new_body)
        if "N12" in enabled and ".find_map(" in src[lo:hi]:
            new_body = desugar_rev_find_map(src[lo:hi], self.log, rel, fn_line)
            src = src[:lo] + new_body + src[hi:]
            hi = lo + len(new_body)
        if "N11" in enabled and ".and_then(" in src[lo:hi]:
            new_body = desugar_and_then(src[lo:hi], self.log, rel, fn_line)
            src = src[:lo] + new_body + src[hi:]
            hi = lo + len(new_body)
        if "N10" in enabled and re.search(r"\.collect\s*(::|\()", src[lo:hi]):
            new_body = desugar_collect_chains(src[lo:hi], self.log, rel, fn_line)
            src = src[:lo] + new_body + src[hi:]
            hi = lo + len(new_body)
        sig = src[loc["start"]:lo]
        sig_text = clean_signature(sig, enabled, self.log, rel, fn_line)
        # restricted visibilities (pub(crate), pub(super), pub(in ..)) are meaningless in the single file
        sig_text = re.sub(r"\bpub\s*\([^)]*\)\s*", "", sig_text)
        if "vis" in kv:
            sig_text = re.sub(r"^\s*pub(\([^)]*\))?\s*", "", sig_text)
            sig_text = (kv["vis"] + " " if kv["vis"] else "") + sig_text
        newname = kv.get("as")
        if newname:
            sig_text = re.sub(r"\bfn\s+%s\b" % re.escape(name), "fn " + newname, sig_text, count=1)
        # body edits
        edits = []
        PURE_MACRO_RES[:] = puremacros
        for rx in puremacros:
            self.log.append(dict(rule="D1p", file=rel, line=fn_line, fn=name, before="tracing macro whose arguments match /%s/" % rx, after="dropped although D1 flags its arguments (declared a pure read by the unit)"))
        edits += rule_D1_D2(src, lo, hi, rel, self.log, enabled)
        PURE_MACRO_RES[:] = []
        edits += rule_D3(src, lo, hi, enabled)
        edits += rule_D5(src, lo, hi, enabled)
        edits += rule_D6(src, lo, hi, enabled)
        edits += rule_N1(src, lo, hi, enabled)
        edits += rule_N2(src, lo, hi, enabled)
        edits += rule_N3(src, lo, hi, enabled)
        edits += rule_N4(src, lo, hi, enabled)
        edits += rule_N5(src, lo, hi, enabled)
        edits += rule_N7(src, lo, hi, enabled)
        edits += rule_N8(src, lo, hi, enabled)
        edits += rule_N9(src, lo, hi, enabled)
        for rule, s, e, repl in edits:
            if rule not in ("D1", "D2"):
                pass
            self.log.append(dict(rule=rule, file=rel, line=line_of(src, s), before=src[s:e][:120].replace("\n", " "),
                                 after=repl[:120], fn=name))
        body = apply_edits(src, lo, hi, edits)
        # comments inside the body are dropped (they may contain text that confuses anchors)
        btoks = tokenize(body)
        cdrop = [(t.start, t.end) for t in btoks if t.kind == "comment"]
        if cdrop:
            o, pos = [], 0
            for a, b2 in cdrop:
                o.append(body[pos:a])
                pos = b2
            o.append(body[pos:])
            body = "".join(o)
            body = "\n".join(l for l in body.split("\n") if l.strip() != "")
        # maps
        for frm, to, optional in maps:
            hits = len(re.findall(frm, sig_text)) + len(re.findall(frm, body))
            if hits == 0:
                if optional:
                    continue
                raise VxError("anchor lost: map %r matches nothing in %s::%s" % (frm, rel, name))
            sig_text = re.sub(frm, to, sig_text)
            body = re.sub(frm, to, body)
            self.log.append(dict(rule="D4/S", file=rel, line=fn_line, before=frm, after=to, hits=hits, fn=name))
        for frm, to in sigmaps:
            hits = len(re.findall(frm, sig_text))
            if hits == 0:
                raise VxError("anchor lost: sigmap %r matches nothing in %s::%s" % (frm, rel, name))
            sig_text = re.sub(frm, to, sig_text)
            self.log.append(dict(rule="D4", file=rel, line=fn_line, before=frm, after=to, hits=hits, fn=name))
        sig_text = name_return(sig_text, enabled, self.log, rel, fn_line)
        if cut:
            ms = list(re.finditer(cut, body))
            if len(ms) != 1:
                raise VxError("anchor lost: cut /%s/ matched %d times in %s::%s" % (cut, len(ms), rel, name))
            off = body.rfind("\n", 0, ms[0].start()) + 1
            depth = 0
            for t in code_toks(tokenize(body[:off])):
                if t.kind == "punct" and t.text == "{":
                    depth += 1
                elif t.kind == "punct" and t.text == "}":
                    depth -= 1
            if depth != 1:
                raise VxError("cut anchor /%s/ is not a top-level statement of %s::%s (depth %d)" % (cut, rel, name, depth))
            dropped = body[off:]
            body = body[:off] + "        return self.vx_rest();\n    }"
            self.log.append(dict(rule="P", file=rel, line=fn_line, fn=name,
                                 before="function suffix from /%s/ (%d lines)" % (cut, dropped.count("\n")),
                                 after="return self.vx_rest()  -- arbitrary effect on self, arbitrary result"))
        if from_after:
            fre, havocs = from_after
            ms = list(re.finditer(fre, body))
            if len(ms) != 1:
                raise VxError("anchor lost: from /%s/ matched %d times in %s::%s" % (fre, len(ms), rel, name))
            off = body.rfind("\n", 0, ms[0].start()) + 1
            depth = 0
            for t in code_toks(tokenize(body[:off])):
                if t.kind == "punct" and t.text == "{":
                    depth += 1
                elif t.kind == "punct" and t.text == "}":
                    depth -= 1
            if depth != 1:
                raise VxError("from anchor /%s/ is not a top-level statement of %s::%s (depth %d)" % (fre, rel, name, depth))
            # end of the anchor statement
            st = code_toks(tokenize(body[off:], off))
            d, end = 0, None
            for qi, t in enumerate(st):
                if t.text in ("{", "(", "["):
                    d += 1
                elif t.text in ("}", ")", "]"):
                    d -= 1
                    if d == 0 and t.text == "}" and not (qi + 1 < len(st) and st[qi + 1].text == "else"):
                        end = t.end
                        break
                elif t.text == ";" and d == 0:
                    end = t.end
                    break
            if end is None:
                raise VxError("from anchor /%s/: cannot find the end of the statement" % fre)
            first = body.index("{") + 1
            dropped = body[first:end]
            # `name: T` -> arbitrary value; `name: T = EXPR` -> the unit states what the prefix leaves in it (a stub call
            # carrying an assumed or separately proved contract)
            decl = "\n        self.vx_prefix();\n" + "".join("        let %s;\n" % h if " = " in h else "        let %s = vx_any();\n" % h for h in havocs)
            body = body[:first] + decl + body[end:]
            self.log.append(dict(rule="F", file=rel, line=fn_line, fn=name,
                                 before="function prefix up to and including the statement /%s/ (%d lines)" % (fre, dropped.count("\n")),
                                 after="self.vx_prefix() (arbitrary effect on self) + arbitrary values for: " + "; ".join(havocs)))
        # loop contracts: insert before the loop body's `{`
        inserts = []  # (offset in body, text, [(name, relative line idx)])
        if loops:
            heads = loop_headers(body)
            for n_, spec in loops.items():
                if n_ >= len(heads):
                    raise VxError("anchor lost: loop %d of %s::%s (found %d loops)" % (n_, rel, name, len(heads)))
                txt_lines, names = [], []
                for key, kw in (("invariant_except_break", "invariant_except_break"), ("invariant", "invariant"),
                                ("ensures", "ensures"), ("decreases", "decreases")):
                    if spec[key]:
                        txt_lines.append(kw)
                        names.append(None)
                        for nm, t, vl in spec[key]:
                            txt_lines.append("    " + t)
                            names.append(nm)
                inserts.append((heads[n_][0], "\n" + "\n".join(txt_lines) + "\n", names))
                if spec.get("iter"):
                    if heads[n_][1] is None:
                        raise VxError("loop %d of %s::%s is not a for-loop (iter=)" % (n_, rel, name))
                    inserts.append((heads[n_][1], spec["iter"] + ": ", "INLINE"))
                    self.log.append(dict(rule="G1", file=rel, line=fn_line, before="for .. in E", after="for .. in %s: E (ghost iterator name)" % spec["iter"], fn=name))
        for rx, where, tl, occ in ats:
            ms = list(re.finditer(rx, body))
            if occ is None and len(ms) != 1:
                raise VxError("anchor lost: at /%s/ matched %d times in %s::%s" % (rx, len(ms), rel, name))
            if occ is not None and len(ms) < occ:
                raise VxError("anchor lost: at /%s/#%d but only %d matches in %s::%s" % (rx, occ, len(ms), rel, name))
            if occ == 0 and not ms:
                raise VxError("anchor lost: at /%s/#* matches nothing in %s::%s" % (rx, rel, name))
            for m in (ms if occ == 0 else [ms[0] if occ is None else ms[occ - 1]]):
                if where == "before":
                    # start of the line
                    off = body.rfind("\n", 0, m.start()) + 1
                elif where == "after_block":
                    # the anchor ends with the `{` of a block: splice right after that block's closing brace
                    if body[m.end() - 1] != "{":
                        raise VxError("at /%s/ after_block: the anchor must end with `{`" % rx)
                    btoks = code_toks(tokenize(body))
                    bi = [k for k, bt in enumerate(btoks) if bt.start == m.end() - 1 and bt.text == "{"]
                    if not bi:
                        raise VxError("anchor lost: at /%s/ after_block: no block opens there in %s::%s" % (rx, rel, name))
                    off = btoks[match_close(btoks, bi[0])].end
                else:
                    off = body.find("\n", m.end())
                    off = len(body) if off < 0 else off + 1
                names = []
                for t in tl:
                    mm = re.search(r"//@\[([^\]]+)\]\s*$", t)
                    names.append(mm.group(1) if mm else None)
                # after_block starts on a fresh line (a leading "\n" is skipped by the emitter without consuming a name)
                inserts.append((off, ("\n" if where == "after_block" else "") + "\n".join(tl) + "\n", names))
        # assemble with origin tracking
        src_origin = dict(kind="src", file=rel, line=fn_line, fn=newname or name)
        self.functions.append(dict(kind="fn", name=name, as_name=newname or name, file=rel, line=fn_line,
                                   impl=loc["impl_header"], sha256=hashlib.sha256(orig_fn_text.encode()).hexdigest()[:16],
                                   dropped_arms=dropped_arms))
        self.emit(sig_text.rstrip(), src_origin)
        fq = newname or name
        if requires:
            self.emit("    requires", dict(kind="contract-kw"))
            for nm, t, vl in requires:
                self.emit("        " + t, dict(kind="requires", fn=fq, vline=vl))
        if ensures:
            self.emit("    ensures", dict(kind="contract-kw"))
            for nm, t, vl in ensures:
                if nm:
                    self.obligations.setdefault(nm, dict(lines=[], fn=fq, kind="ensures"))
                    self.obligations[nm]["lines"].append(len(self.out_lines) + 1)
                    self.obligations[nm]["fn"] = fq
                self.emit("        " + t, dict(kind="contract", name=nm, fn=fq, vline=vl))
        # body with inserts
        inserts.sort(key=lambda x: x[0])
        pos = 0
        # inline inserts (ghost iterator names) are applied textually first, from the back
        for off, text, names in sorted([x for x in inserts if x[2] == "INLINE"], key=lambda x: -x[0]):
            body = body[:off] + text + body[off:]
            inserts = [(o + (len(text) if o > off else 0), t, n) for (o, t, n) in inserts if n != "INLINE" or o != off]
        inserts = [x for x in inserts if x[2] != "INLINE"]
        inserts.sort(key=lambda x: x[0])
        for off, text, names in inserts:
            seg = body[pos:off]
            if seg:
                self._emit_body(seg, src_origin, partial=True)
            tl = text.split("\n")
            # text begins with "\n" for loop specs
            k = 0
            for idx, l in enumerate(tl):
                if idx == 0 and l == "":
                    self._newline()
                    continue
                if idx == len(tl) - 1 and l == "":
                    continue
                nm = names[k] if k < len(names) else None
                k += 1
                if nm:
                    self.obligations.setdefault(nm, dict(lines=[], fn=fq, kind="inline"))
                    self.obligations[nm]["lines"].append(len(self.out_lines) + 1)
                    self.obligations[nm]["fn"] = fq
                self.emit(l, dict(kind="contract", name=nm, fn=fq))
            pos = off
        self._emit_body(body[pos:], src_origin, partial=False)

    def _newline(self):
        pass

    def _emit_body(self, seg, origin, partial):
        # Body segments are emitted line by line; a segment that ends without a newline keeps the
        # following spliced text on its own line (Verus accepts clauses on separate lines).
        for ln in seg.split("\n"):
            if ln.strip() == "" and partial:
                continue
            self.out_lines.append(ln)
            self.origin.append(origin)

    def meta(self):
        return dict(unit=self.unit, vspec=self.vspec_path, functions=self.functions, rules=self.log,
                    obligations=self.obligations, assumed=self.stubs, origin=self.origin)


def auto_helper(repo, name, prefer=()):
    """Locate a free function `name` in the repository's non-test sources and return Verus text for it.
    If its body is a single side-effect-free expression the function gets the strongest postcondition
    `ensures ret == <body>` (rule H: helper auto-contract); otherwise it is returned without a
    contract and the caller must treat unproved obligations as undecided."""
    import subprocess
    try:
        out = subprocess.run(["grep", "-rlE", r"fn\s+%s\s*[(<]" % re.escape(name), repo, "--include=*.rs",
                              "--exclude-dir=target", "--exclude-dir=tests", "--exclude-dir=benches", "--exclude-dir=examples"],
                             stdout=subprocess.PIPE).stdout.decode().split()
    except Exception:
        return None
    out = [f for f in out if not f.endswith("_test.rs") and "/test_utils/" not in f and "/raft_test/" not in f]
    found = []
    for f in out:
        src = open(f).read()
        try:
            loc = find_fn(src, name, None, 0)
        except VxError:
            continue
        if " | " in loc["impl_header"] or loc["impl_header"].startswith(("impl", "trait")):
            continue  # methods are not auto-extracted
        found.append((f, src, loc))
    if len(found) > 1 and prefer:
        # `prefer` is ordered: the crate most of the unit's functions come from first (a caller resolves a free
        # function in its own crate before anything else)
        for crate in prefer:
            pf = [x for x in found if os.path.relpath(x[0], repo).split("/")[0] == crate]
            if pf:
                found = pf
                break
    if len(found) != 1:
        return None
    f, src, loc = found[0]
    rel = os.path.relpath(f, repo)
    log = []
    enabled = set(ALL_RULES)
    lo, hi = loc["body_open"], loc["body_close"]
    sig = clean_signature(src[loc["start"]:lo], enabled, log, rel, line_of(src, loc["fn_tok"]))
    sig = re.sub(r"\bpub\s*(\([^)]*\))?\s*", "", sig)
    sig = name_return(sig, enabled, log, rel, 0)
    edits = rule_D1_D2(src, lo, hi, rel, log, enabled) + rule_D3(src, lo, hi, enabled) + rule_D5(src, lo, hi, enabled)
    body = apply_edits(src, lo, hi, edits)
    btoks = tokenize(body)
    for t in reversed([t for t in btoks if t.kind == "comment"]):
        body = body[:t.start] + body[t.end:]
    inner = body.strip()[1:-1].strip()
    simple = (";" not in inner and not re.search(r"\b(for|while|loop|let|return|match|if)\b", inner)
              and not re.search(r"[A-Za-z_]\w*\s*\(", inner) and "->" in sig)
    ens = ""
    if simple:
        ens = "\n    ensures ret == (%s)," % re.sub(r"\s+", " ", inner)
    return dict(text=sig.rstrip() + ens + "\n" + body + "\n", file=rel, line=line_of(src, loc["fn_tok"]), auto_contract=bool(simple),
                sha256=hashlib.sha256(src[loc["start"]:hi].encode()).hexdigest()[:16])


def generate(vspec_path, out_rs, out_meta, repo=REPO):
    g = Gen(vspec_path, repo)
    text = g.run()
    os.makedirs(os.path.dirname(out_rs), exist_ok=True)
    open(out_rs, "w").write(text)
    json.dump(g.meta(), open(out_meta, "w"), indent=1)
    return g


if __name__ == "__main__":
    if len(sys.argv) < 3:
        print("usage: vx.py <unit.vspec> <out.rs> [<out.meta.json>]")
        sys.exit(64)
    try:
        g = generate(sys.argv[1], sys.argv[2], sys.argv[3] if len(sys.argv) > 3 else sys.argv[2] + ".meta.json")
    except VxError as e:
        print("UNDECIDED extraction:", e)
        sys.exit(2)
    print("generated %s: %d functions/items, %d rule applications, %d named obligations" % (
        sys.argv[2], len(g.functions), len(g.log), len(g.obligations)))
