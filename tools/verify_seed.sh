#!/bin/sh
# usage: verify_seed.sh <ID> <worktree> <seed-dir>   -- confirms a seeded change in a scratch worktree:
#  (1) demo fails with patch, (2) demo passes without, (3) whole suite passes with patch (known always-fail/flaky aside)
ID=$1; WT=$2; SD=$3
LOG=/root/scratch/verify-$ID.log
cd $WT || exit 2
git checkout -q -- . ; git clean -fdq -e target
DEMO=$(python3 -c "import json;print(json.load(open('$SD/meta.json'))['demo_command'])")
echo "demo command: $DEMO" > $LOG
git apply $SD/demo.diff || { echo "demo.diff does not apply" >> $LOG; exit 2; }
echo "=== demo WITHOUT patch" >> $LOG
( eval "$DEMO" ) >> $LOG 2>&1; echo "rc_without=$?" >> $LOG
git apply $SD/patch.diff || { echo "patch.diff does not apply" >> $LOG; exit 2; }
echo "=== demo WITH patch" >> $LOG
( eval "$DEMO" ) >> $LOG 2>&1; echo "rc_with=$?" >> $LOG
echo "=== full suite WITH patch (demo test removed)" >> $LOG
git checkout -q -- . ; git clean -fdq -e target; git apply $SD/patch.diff
cargo nextest run --workspace --no-fail-fast --test-threads 8 --offline > /root/scratch/verify-$ID.suite.log 2>&1
grep -E "^\s+(FAIL|TIMEOUT)|Summary" /root/scratch/verify-$ID.suite.log | sort -u >> $LOG
git checkout -q -- . ; git clean -fdq -e target
grep -E "rc_without|rc_with|Summary" $LOG
