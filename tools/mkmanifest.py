#!/usr/bin/env python3
"""Regenerates /verif/MANIFEST.json from contracts/units.json and contracts/claims.json and validates it."""
import json
import os
import sys

HERE = os.path.dirname(os.path.dirname(os.path.abspath(__file__)))
units = json.load(open(os.path.join(HERE, "contracts", "units.json")))
claims = json.load(open(os.path.join(HERE, "contracts", "claims.json")))
props = [json.loads(l) for l in open(os.path.join(HERE, "properties.jsonl"))]
ids = [p["id"] for p in props]

checks = []
for pid in ids:
    if pid not in units["properties"]:
        continue
    c = claims["claimed"][pid]
    pc = units["properties"][pid]
    cat = {"proof": "proof", "other": "other", "model_checking": "model_checking"}[pc.get("level", "proof")]
    checks.append({
        "property_id": pid,
        "quick_cmd": "./check %s --tier quick" % pid,
        "thorough_cmd": "./check %s --tier thorough" % pid,
        "evidence_file": "/verif/evidence/%s.json" % pid,
        "replay_cmd_template": "./check %s --replay {path}" % pid,
        "engine": "contracts",
        "level_claimed": {"category": cat, "text": c["text"], "design_ref": c.get("design_ref", "DESIGN.md §3 " + pid)},
        "level_note": c["note"],
        "technique": c["technique"],
    })

na = []
for pid in ids:
    if pid in units["properties"]:
        continue
    if pid not in claims["not_applicable"]:
        print("missing not_applicable reason for", pid)
        sys.exit(1)
    na.append({"property_id": pid, "reason": claims["not_applicable"][pid]})

manifest = {
    "version": 1,
    "setup_cmd": "./setup.sh",
    "hooks": {
        "guard": "cfg(kani) and cfg(d_engine_verif)",
        "enable": "cargo kani sets --cfg kani itself (harness modules /verif/kani/*.rs); replay tests are built with RUSTFLAGS='--cfg d_engine_verif' cargo test -p d-engine-core --lib verif_replays (module /verif/replay/core_replays.rs) and -p d-engine-server --lib verif_replays (module /verif/replay/server_replays.rs); all hooks are `#[cfg(..)] #[path = ..] mod ..;` lines plus one `#[cfg(all(test, d_engine_verif))] pub(crate) use ..;` re-export, inert in every ordinary build",
        "baseline_off_cmd": "cd /repo && cargo nextest run --workspace --no-fail-fast --test-threads 8 --offline || cargo test --workspace --no-fail-fast --offline",
        "source_commits": claims["hook_commits"],
        "add_only": True,
    },
    "engines": [
        {"name": "contracts", "path": "/verif/check",
         "serves_properties": [c["property_id"] for c in checks],
         "kind_free_text": "contract-based deductive verification: Verus on functions extracted mechanically from /repo on every run (tools/vx.py, contracts/*.vspec) and Kani/CBMC harnesses compiled inside the real crates (kani/*.rs)"}
    ],
    "checks": checks,
    "notes": claims.get("notes", ""),
    "not_applicable": na,
}
json.dump(manifest, open(os.path.join(HERE, "MANIFEST.json"), "w"), indent=1)
try:
    import jsonschema
    jsonschema.validate(manifest, json.load(open("/root/.vp/MANIFEST.schema.json")))
    print("MANIFEST.json valid: %d checks, %d not_applicable" % (len(checks), len(na)))
except ImportError:
    print("MANIFEST.json written (jsonschema not importable here; validate with python3-vt)")
