// Kani harnesses for items private to d-engine-core's `config` module. Compiled inside the real
// crate through the add-only hook at the end of d-engine-core/src/config/mod.rs.
#![allow(dead_code, unused_imports)]
use super::*;
use crate::verif_kani::stubs;

macro_rules! kani_harness {
    ($(#[$m:meta])* fn $name:ident() $body:block) => {
        #[kani::proof]
        #[kani::stub(tracing::Event::dispatch, stubs::event_dispatch)]
        #[kani::stub(tracing::__macro_support::__is_enabled, stubs::is_enabled)]
        #[kani::stub(tracing::callsite::DefaultCallsite::interest, stubs::interest)]
        #[kani::stub(tracing::Span::new, stubs::span_new)]
        #[kani::stub(alloc::fmt::format, stubs::fmt_format)]
        $(#[$m])*
        fn $name() $body
    };
}

kani_harness! {
fn c34_read_consistency_validate_lease_lt_election() {
    let mut c = ReadConsistencyConfig::default();
    c.lease_duration_ms = kani::any();
    c.network_rtt_p99_ms = kani::any();
    let emin: u64 = kani::any();
    let ok = c.validate(emin).is_ok();
    if ok {
        // property clause, in unbounded arithmetic (u128 cannot overflow here)
        assert!(c.lease_duration_ms > 0);
        assert!((c.lease_duration_ms as u128) + ((c.network_rtt_p99_ms / 2) as u128) < emin as u128);
    }
    kani::cover!(ok);
    kani::cover!(!ok);
}
}

