// Kani harnesses for d-engine-core. Compiled *inside* the real crate through the
// add-only hook `#[cfg(kani)] #[path = "/verif/kani/core_harness.rs"] mod verif_kani;`
// in d-engine-core/src/lib.rs, so every call below is a call of the real function.
//
// Every harness is loop-free over full-domain symbolic scalars (kani::any()), so a
// SUCCESSFUL result is a complete proof for all inputs, not a bounded one.
// Naming: <property>_<obligation>; the runner maps harness names to obligations
// through /verif/contracts/kani_units.json.
#![allow(dead_code, unused_imports)]

use crate::*;

// ---------------------------------------------------------------------------
// Stubs (each is an assumption, listed in evidence): tracing internals touch a
// thread-local, which kani-compiler cannot translate; format! is pure cost.
// ---------------------------------------------------------------------------
pub(crate) mod stubs {
    pub fn event_dispatch<'a>(
        _m: &'static tracing::Metadata<'static>,
        _f: &'a tracing::field::ValueSet<'a>,
    ) where
        'a: 'a,
    {
    }
    pub fn is_enabled(
        _m: &'static tracing::Metadata<'static>,
        _i: tracing::subscriber::Interest,
    ) -> bool {
        false
    }
    pub fn interest(_c: &tracing::callsite::DefaultCallsite) -> tracing::subscriber::Interest {
        tracing::subscriber::Interest::never()
    }
    pub fn span_new(
        _m: &'static tracing::Metadata<'static>,
        _v: &tracing::field::ValueSet<'_>,
    ) -> tracing::Span {
        tracing::Span::none()
    }
    pub fn fmt_format(_a: core::fmt::Arguments<'_>) -> String {
        String::new()
    }
    pub fn validate_directory_ok(
        _p: &std::path::Path,
        _n: &str,
    ) -> crate::Result<()> {
        Ok(())
    }
}

macro_rules! kani_harness {
    ($(#[$m:meta])* fn $name:ident() $body:block) => {
        #[kani::proof]
        #[kani::stub(tracing::Event::dispatch, stubs::event_dispatch)]
        #[kani::stub(tracing::__macro_support::__is_enabled, stubs::is_enabled)]
        #[kani::stub(tracing::callsite::DefaultCallsite::interest, stubs::interest)]
        #[kani::stub(tracing::Span::new, stubs::span_new)]
        #[kani::stub(alloc::fmt::format, stubs::fmt_format)]
        $(#[$m])*
        fn $name() $body
    };
}

// ===========================================================================
// K-CMP  (C01, C05): log up-to-date comparison and higher-term detection
// ===========================================================================
kani_harness! {
fn c05_cmp_uptodate_is_lexicographic() {
    let (mi, mt, ti, tt): (u64, u64, u64, u64) = (kani::any(), kani::any(), kani::any(), kani::any());
    let r = is_target_log_more_recent(mi, mt, ti, tt);
    // Oracle (Raft §5.4.1): target is at least as up to date  <=>  (tt, ti) >= (mt, mi) lexicographically
    let oracle = (tt, ti) >= (mt, mi);
    assert!(r == oracle);
    kani::cover!(r);
    kani::cover!(!r);
}
}

kani_harness! {
fn c01_cmp_higher_term_exact() {
    let (my, t, l): (u64, u64, bool) = (kani::any(), kani::any(), kani::any());
    let r = if_higher_term_found(my, t, l);
    assert!(r == (!l && t > my));
    kani::cover!(r);
}
}

// ===========================================================================
// K-LEASE (C12): packed (term, deadline) lease word
// ===========================================================================
const LEASE_MAX: u64 = (1u64 << 48) - 1;

kani_harness! {
fn c12_lease_renew_then_valid_iff() {
    let (t, d, ct, now): (u64, u64, u64, u64) = (kani::any(), kani::any(), kani::any(), kani::any());
    kani::assume(d <= LEASE_MAX);
    let l = ReadLease::new();
    l.renew(t, d);
    assert!(l.is_valid(now) == (d > now));
    assert!(l.is_valid_for_leader(ct, now) == ((t & 0xFFFF) == (ct & 0xFFFF) && d > now));
    // property clause: a lease for the leader's own term is valid exactly until its deadline
    assert!(l.is_valid_for_leader(t, now) == (d > now));
    kani::cover!(l.is_valid_for_leader(ct, now));
    kani::cover!(!l.is_valid_for_leader(ct, now) && d > now);
}
}

kani_harness! {
fn c12_lease_fresh_is_invalid() {
    let (ct, now): (u64, u64) = (kani::any(), kani::any());
    let l = ReadLease::new();
    assert!(!l.is_valid(now));
    assert!(!l.is_valid_for_leader(ct, now));
    let d = ReadLease::default();
    assert!(!d.is_valid(now));
    assert!(!d.is_valid_for_leader(ct, now));
}
}

kani_harness! {
fn c12_lease_revoke_invalidates_at_once() {
    let (t, d, ct, now): (u64, u64, u64, u64) = (kani::any(), kani::any(), kani::any(), kani::any());
    kani::assume(d <= LEASE_MAX);
    let l = ReadLease::new();
    l.renew(t, d);
    kani::cover!(l.is_valid(now));
    l.revoke();
    assert!(!l.is_valid(now));
    assert!(!l.is_valid_for_leader(ct, now));
}
}

kani_harness! {
fn c12_lease_invalidate_invalidates_at_once() {
    let (t, d, nt, ct, now): (u64, u64, u64, u64, u64) =
        (kani::any(), kani::any(), kani::any(), kani::any(), kani::any());
    kani::assume(d <= LEASE_MAX);
    let l = ReadLease::new();
    l.renew(t, d);
    kani::cover!(l.is_valid(now));
    l.invalidate(nt);
    assert!(!l.is_valid(now));
    assert!(!l.is_valid_for_leader(ct, now));
}
}

kani_harness! {
fn c12_lease_last_renew_wins() {
    // a later renew fully replaces an earlier one (no stale deadline bits survive)
    let (t1, d1, t2, d2, now): (u64, u64, u64, u64, u64) =
        (kani::any(), kani::any(), kani::any(), kani::any(), kani::any());
    kani::assume(d1 <= LEASE_MAX && d2 <= LEASE_MAX);
    let l = ReadLease::new();
    l.renew(t1, d1);
    l.renew(t2, d2);
    assert!(l.is_valid(now) == (d2 > now));
    assert!(l.is_valid_for_leader(t2, now) == (d2 > now));
}
}

kani_harness! {
#[kani::should_panic]
fn c12_lease_renew_rejects_overflowing_deadline() {
    // deadlines that do not fit the 48-bit field must not be silently truncated
    let (t, d): (u64, u64) = (kani::any(), kani::any());
    kani::assume(d > LEASE_MAX);
    let l = ReadLease::new();
    l.renew(t, d);
}
}

// ===========================================================================
// K-CONFIG (C34, C12): accepted configurations satisfy the timing constraints
// ===========================================================================
kani_harness! {
#[kani::stub(crate::config::validate_directory, stubs::validate_directory_ok)]
fn c34_raft_config_validate_accepts_only_safe() {
    let mut c = RaftConfig::default();
    c.read_consistency.lease_duration_ms = kani::any();
    c.read_consistency.network_rtt_p99_ms = kani::any();
    c.election.election_timeout_min = kani::any();
    c.election.election_timeout_max = kani::any();
    c.replication.rpc_append_entries_clock_in_ms = kani::any();
    c.replication.append_entries_max_entries_per_replication = kani::any();
    c.batching.max_batch_size = kani::any();
    c.batching.max_merge_entries = kani::any();
    c.snapshot.retained_log_entries = kani::any();
    let ok = c.validate().is_ok();
    if ok {
        let lease = c.read_consistency.lease_duration_ms as u128;
        let half_rtt = (c.read_consistency.network_rtt_p99_ms / 2) as u128;
        assert!(lease > 0);
        assert!(lease + half_rtt < c.election.election_timeout_min as u128);
        assert!(c.election.election_timeout_min < c.election.election_timeout_max);
        assert!(c.replication.rpc_append_entries_clock_in_ms != 0);
        assert!(c.replication.append_entries_max_entries_per_replication != 0);
        assert!(c.batching.max_batch_size != 0);
        assert!(c.batching.max_merge_entries != 0);
        assert!(c.snapshot.retained_log_entries >= 1);
    }
    kani::cover!(ok);
    kani::cover!(!ok);
}
}

// ===========================================================================
// K-BATCH (C26): batch promotion size and join guard
// ===========================================================================
#[inline]
fn maj(n: u128) -> u128 {
    n / 2 + 1
}
/// Every majority of `old` voters meets every majority of `new` voters, where the new
/// voter set is a superset of the old one (|new| >= |old|): two subsets of a set of
/// size `new` with sizes maj(old) and maj(new) must overlap  <=>  maj(old)+maj(new) > new.
#[inline]
fn quorums_intersect(old: u128, new: u128) -> bool {
    maj(old) + maj(new) > new
}

kani_harness! {
fn c26_batch_size_guarded() {
    // everything the property demands except for the recorded finding F-C26a
    let (cur, avail): (usize, usize) = (kani::any(), kani::any());
    kani::assume(cur >= 1);
    kani::assume((cur as u128) + (avail as u128) <= usize::MAX as u128);
    let r = crate::raft_role::leader_state::calculate_safe_batch_size(cur, avail);
    assert!(r <= avail);
    assert!(r == 0 || (cur + r) % 2 == 1);
    // never promotes fewer than safely possible: r is avail or avail-1
    assert!(r == avail || r + 1 == avail);
    // single-step changes (<= 1 new voter) always intersect
    if r <= 1 {
        assert!(quorums_intersect(cur as u128, (cur + r) as u128));
    }
    kani::cover!(r > 1);
    kani::cover!(r == 0 && avail > 0);
}
}

kani_harness! {
fn c26_batch_size_quorums_intersect_strict() {
    // the property clause itself: old and new quorums always intersect
    let (cur, avail): (usize, usize) = (kani::any(), kani::any());
    kani::assume(cur >= 1);
    kani::assume((cur as u128) + (avail as u128) <= usize::MAX as u128);
    let r = crate::raft_role::leader_state::calculate_safe_batch_size(cur, avail);
    assert!(quorums_intersect(cur as u128, (cur + r) as u128));
}
}

// ===========================================================================
// K-FCOMMIT (C07): follower commit rule
// ===========================================================================
kani_harness! {
fn c07_follower_commit_rule_exact() {
    let (mine, bound, leader): (u64, u64, u64) = (kani::any(), kani::any(), kani::any());
    let r = <crate::replication::ReplicationHandler<crate::test_utils::MockTypeConfig> as crate::replication::ReplicationCore<crate::test_utils::MockTypeConfig>>::if_update_commit_index_as_follower(mine, bound, leader);
    match r {
        Some(c) => {
            assert!(leader > mine);
            assert!(c <= leader);
            assert!(c <= bound);            // never beyond the index bound handed in
            assert!(c == leader || c == bound);
        }
        // no update is always safe; it must happen when there is nothing to gain
        None => assert!(leader <= mine || bound <= mine),
    }
    kani::cover!(r.is_some());
    kani::cover!(r.is_none());
}
}

// ===========================================================================
// K-BACKP (side check, C14 not claimed): back-pressure thresholds
// ===========================================================================
kani_harness! {
fn c14_backpressure_exact() {
    let mut c = BackpressureConfig::default();
    c.max_pending_writes = kani::any();
    c.max_pending_reads = kani::any();
    let p: usize = kani::any();
    assert!(c.should_reject_write(p) == (c.max_pending_writes != 0 && p >= c.max_pending_writes));
    assert!(c.should_reject_read(p) == (c.max_pending_reads != 0 && p >= c.max_pending_reads));
}
}
